#!/bin/sh
# seedsweep.sh <first> <last> [tier]: run every registered check on the unchanged tree for a range of
# VERIF_SEED values; any exit code other than 0 is listed. Soundness self-test (no false alarms).
cd "$(dirname "$0")" || exit 2
tier="${3:-quick}"
bad=0
for s in $(seq "$1" "$2"); do
  for p in C15 C16 C18; do
    VERIF_SEED=$s VERIF_EVIDENCE_DIR="${TMPDIR:-/tmp}/seedsweep-ev.$$" VERIF_REPLAY_DIR="$PWD/replays" VERIF_SKIP_SELFTESTS=1 ./check.sh $p $tier > "${TMPDIR:-/tmp}/seedsweep.$$.log" 2>&1
    rc=$?
    echo "seed=$s $p exit=$rc $(grep -m1 '^explored' "${TMPDIR:-/tmp}/seedsweep.$$.log")"
    if [ $rc != 0 ]; then bad=1; grep -v '^  ' "${TMPDIR:-/tmp}/seedsweep.$$.log" | tail -8 | cut -c1-400; fi
  done
done
rm -rf "${TMPDIR:-/tmp}/seedsweep-ev.$$" "${TMPDIR:-/tmp}/seedsweep.$$.log"
exit $bad
