// Command instrument copies a Go module into a scratch directory and routes
// every synchronisation operation of its non-test code through the simulator
// hook runtime (package <module>/zz_simrt):
//
//	go statements, channel send/receive/close/range, select, sync.Mutex /
//	RWMutex / Once / WaitGroup / Cond method calls, and range over maps.
//
// It is type-directed (go/types), stdlib only, and works offline.
//
// usage: instrument -src /repo -dst /scratch/repo -simrt /verif/simrt [-report file.json]
//
// exit 0: ok; exit 2: cannot parse / type-check / write (never a verdict).
package main

import (
	"bytes"
	"encoding/json"
	"flag"
	"fmt"
	"go/ast"
	"go/build"
	"go/format"
	"go/importer"
	"go/parser"
	"go/token"
	"go/types"
	"io/fs"
	"os"
	"path/filepath"
	"reflect"
	"sort"
	"strconv"
	"strings"
)

const rtName = "zz_simrt"

type pkgInfo struct {
	path  string // import path
	dir   string // absolute source dir
	rel   string // dir relative to module root
	files []*ast.File
	names []string // file base names, parallel to files
	tpkg  *types.Package
	info  *types.Info
	state int // 0 new, 1 in progress, 2 done
}

type modImporter struct {
	fset   *token.FileSet
	mod    string
	pkgs   map[string]*pkgInfo
	std    types.ImporterFrom
	errors []string
}

func (m *modImporter) Import(path string) (*types.Package, error) {
	return m.ImportFrom(path, "", 0)
}

func (m *modImporter) ImportFrom(path, dir string, mode types.ImportMode) (*types.Package, error) {
	if p, ok := m.pkgs[path]; ok {
		if err := m.check(p); err != nil {
			return nil, err
		}
		return p.tpkg, nil
	}
	if path == m.mod || strings.HasPrefix(path, m.mod+"/") {
		return nil, fmt.Errorf("package %s not found in module tree", path)
	}
	return m.std.ImportFrom(path, dir, mode)
}

func (m *modImporter) check(p *pkgInfo) error {
	switch p.state {
	case 2:
		return nil
	case 1:
		return fmt.Errorf("import cycle through %s", p.path)
	}
	p.state = 1
	p.info = &types.Info{
		Types:      map[ast.Expr]types.TypeAndValue{},
		Defs:       map[*ast.Ident]types.Object{},
		Uses:       map[*ast.Ident]types.Object{},
		Selections: map[*ast.SelectorExpr]*types.Selection{},
		Implicits:  map[ast.Node]types.Object{},
	}
	conf := types.Config{Importer: m, Error: func(err error) { m.errors = append(m.errors, err.Error()) }}
	tp, err := conf.Check(p.path, m.fset, p.files, p.info)
	p.tpkg = tp
	p.state = 2
	if err != nil {
		return fmt.Errorf("type-check %s: %v", p.path, err)
	}
	return nil
}

type site struct {
	ID    int    `json:"id"`
	Pos   string `json:"pos"`
	What  string `json:"what"`
	Func  string `json:"func,omitempty"`
	Label string `json:"label"`
}

type report struct {
	Module         string         `json:"module"`
	Packages       []string       `json:"packages"`
	Sites          []site         `json:"sites"`
	Counts         map[string]int `json:"counts"`
	Uninstrumented []string       `json:"uninstrumented_sync_sites"`
	FilesRewritten []string       `json:"files_rewritten"`
}

type rewriter struct {
	fset    *token.FileSet
	root    string
	mod     string
	p       *pkgInfo
	rep     *report
	used    bool // current file uses the runtime
	recv2   map[*ast.UnaryExpr]bool
	flatten map[*ast.BlockStmt]bool // synthetic blocks to be spliced into the enclosing statement list
	simple  bool                    // rewriting an init/post statement: no blocks allowed
	noWrap  map[*ast.CallExpr]bool  // zero-result atomic calls handled at statement level
	curFunc string
}

func fatal(format string, a ...any) {
	fmt.Fprintf(os.Stderr, "instrument: "+format+"\n", a...)
	os.Exit(2)
}

func main() {
	src := flag.String("src", "", "module root to instrument")
	dst := flag.String("dst", "", "destination directory (created)")
	simrt := flag.String("simrt", "", "directory holding the hook runtime sources")
	reportPath := flag.String("report", "", "write JSON report here")
	flag.Parse()
	if *src == "" || *dst == "" || *simrt == "" {
		fatal("need -src, -dst, -simrt")
	}
	root, _ := filepath.Abs(*src)
	out, _ := filepath.Abs(*dst)

	modBytes, err := os.ReadFile(filepath.Join(root, "go.mod"))
	if err != nil {
		fatal("%v", err)
	}
	mod := ""
	for _, ln := range strings.Split(string(modBytes), "\n") {
		f := strings.Fields(ln)
		if len(f) >= 2 && f[0] == "module" {
			mod = strings.Trim(f[1], "\"")
			break
		}
	}
	if mod == "" {
		fatal("no module line in go.mod")
	}

	fset := token.NewFileSet()
	bctx := build.Default
	bctx.CgoEnabled = false
	mi := &modImporter{fset: fset, mod: mod, pkgs: map[string]*pkgInfo{}}
	mi.std = importer.ForCompiler(fset, "source", nil).(types.ImporterFrom)

	// 1. copy the whole tree verbatim (except VCS and nested modules), and parse non-test files
	var dirs []string
	err = filepath.WalkDir(root, func(path string, d fs.DirEntry, err error) error {
		if err != nil {
			return err
		}
		rel, _ := filepath.Rel(root, path)
		if d.IsDir() {
			base := d.Name()
			if path != root && (strings.HasPrefix(base, ".") || base == "testdata" && false) {
				return filepath.SkipDir
			}
			if path != root && strings.HasPrefix(base, "zz_sim") {
				return filepath.SkipDir
			}
			if path != root {
				if _, e := os.Stat(filepath.Join(path, "go.mod")); e == nil {
					return filepath.SkipDir // nested module
				}
			}
			if e := os.MkdirAll(filepath.Join(out, rel), 0o755); e != nil {
				return e
			}
			dirs = append(dirs, path)
			return nil
		}
		if !d.Type().IsRegular() {
			return nil
		}
		b, e := os.ReadFile(path)
		if e != nil {
			return e
		}
		return os.WriteFile(filepath.Join(out, rel), b, 0o644)
	})
	if err != nil {
		fatal("copy: %v", err)
	}

	for _, dir := range dirs {
		rel, _ := filepath.Rel(root, dir)
		ents, _ := os.ReadDir(dir)
		var p *pkgInfo
		for _, e := range ents {
			n := e.Name()
			if e.IsDir() || !strings.HasSuffix(n, ".go") || strings.HasSuffix(n, "_test.go") {
				continue
			}
			ok, merr := bctx.MatchFile(dir, n)
			if merr != nil {
				fatal("%s/%s: %v", rel, n, merr)
			}
			if !ok {
				continue
			}
			f, perr := parser.ParseFile(fset, filepath.Join(dir, n), nil, parser.ParseComments)
			if perr != nil {
				fatal("parse: %v", perr)
			}
			if p == nil {
				ip := mod
				if rel != "." {
					ip = mod + "/" + filepath.ToSlash(rel)
				}
				p = &pkgInfo{path: ip, dir: dir, rel: rel}
			}
			p.files = append(p.files, f)
			p.names = append(p.names, n)
		}
		if p != nil {
			// all files must agree on the package name; ignore "package main" helpers mixed in? no: report
			mi.pkgs[p.path] = p
		}
	}

	var paths []string
	for ip := range mi.pkgs {
		paths = append(paths, ip)
	}
	sort.Strings(paths)
	for _, ip := range paths {
		if err := mi.check(mi.pkgs[ip]); err != nil {
			for _, e := range mi.errors {
				fmt.Fprintln(os.Stderr, "  ", e)
			}
			fatal("%v", err)
		}
	}

	rep := &report{Module: mod, Packages: paths, Counts: map[string]int{}}
	// site 0 is reserved ("harness")
	rep.Sites = append(rep.Sites, site{ID: 0, Pos: "-", What: "harness", Label: "harness"})

	for _, ip := range paths {
		p := mi.pkgs[ip]
		for i, f := range p.files {
			rw := &rewriter{fset: fset, root: root, mod: mod, p: p, rep: rep, recv2: map[*ast.UnaryExpr]bool{}, flatten: map[*ast.BlockStmt]bool{}, noWrap: map[*ast.CallExpr]bool{}}
			rw.file(f)
			if !rw.used {
				continue
			}
			blankUnusedImports(f, p.info)
			addImport(f, mod+"/"+rtName)
			keepDirectiveComments(f)
			var buf bytes.Buffer
			if err := format.Node(&buf, fset, f); err != nil {
				fatal("print %s/%s: %v", p.rel, p.names[i], err)
			}
			dstFile := filepath.Join(out, p.rel, p.names[i])
			if err := os.WriteFile(dstFile, buf.Bytes(), 0o644); err != nil {
				fatal("%v", err)
			}
			rep.FilesRewritten = append(rep.FilesRewritten, filepath.ToSlash(filepath.Join(p.rel, p.names[i])))
		}
	}

	// 3. hook runtime + site table
	rtDir := filepath.Join(out, rtName)
	if err := os.MkdirAll(rtDir, 0o755); err != nil {
		fatal("%v", err)
	}
	ents, err := os.ReadDir(*simrt)
	if err != nil {
		fatal("%v", err)
	}
	for _, e := range ents {
		if e.IsDir() || !(strings.HasSuffix(e.Name(), ".go") || strings.HasSuffix(e.Name(), ".s")) || strings.HasSuffix(e.Name(), "_test.go") {
			continue
		}
		b, err := os.ReadFile(filepath.Join(*simrt, e.Name()))
		if err != nil {
			fatal("%v", err)
		}
		if err := os.WriteFile(filepath.Join(rtDir, e.Name()), b, 0o644); err != nil {
			fatal("%v", err)
		}
	}
	var sb strings.Builder
	sb.WriteString("// Code generated by cmd/instrument. DO NOT EDIT.\n\npackage " + rtName + "\n\n// Sites maps site ids to labels.\nvar Sites = []string{\n")
	for _, s := range rep.Sites {
		sb.WriteString("\t" + strconv.Quote(s.Label) + ",\n")
	}
	sb.WriteString("}\n")
	if err := os.WriteFile(filepath.Join(rtDir, "sites_gen.go"), []byte(sb.String()), 0o644); err != nil {
		fatal("%v", err)
	}

	if *reportPath != "" {
		b, _ := json.MarshalIndent(rep, "", " ")
		if err := os.WriteFile(*reportPath, b, 0o644); err != nil {
			fatal("%v", err)
		}
	}
}

func keepDirectiveComments(f *ast.File) {
	var keep []*ast.CommentGroup
	for _, cg := range f.Comments {
		if cg.End() < f.Package {
			keep = append(keep, cg)
			continue
		}
	}
	for _, d := range f.Decls {
		var doc *ast.CommentGroup
		switch x := d.(type) {
		case *ast.FuncDecl:
			doc = x.Doc
		case *ast.GenDecl:
			doc = x.Doc
		}
		if doc == nil {
			continue
		}
		has := false
		for _, c := range doc.List {
			if strings.HasPrefix(c.Text, "//go:") || strings.HasPrefix(c.Text, "//line ") {
				has = true
			}
		}
		if has {
			keep = append(keep, doc)
		} else {
			switch x := d.(type) {
			case *ast.FuncDecl:
				x.Doc = nil
			case *ast.GenDecl:
				x.Doc = nil
			}
		}
	}
	sort.Slice(keep, func(i, j int) bool { return keep[i].Pos() < keep[j].Pos() })
	f.Comments = keep
	// drop all other comment references inside the tree
	ast.Inspect(f, func(n ast.Node) bool {
		switch x := n.(type) {
		case *ast.Field:
			x.Doc, x.Comment = nil, nil
		case *ast.ValueSpec:
			x.Doc, x.Comment = nil, nil
		case *ast.TypeSpec:
			x.Doc, x.Comment = nil, nil
		case *ast.ImportSpec:
			x.Doc, x.Comment = nil, nil
		}
		return true
	})
}

// blankUnusedImports: a rewrite can remove the last use of an import (e.g.
// runtime.Gosched -> zz_simrt.Gosched); such an import is renamed to _ so the
// file still compiles and the package's init still runs.
func blankUnusedImports(f *ast.File, info *types.Info) {
	used := map[*types.PkgName]bool{}
	ast.Inspect(f, func(n ast.Node) bool {
		if id, ok := n.(*ast.Ident); ok {
			if pn, ok := info.Uses[id].(*types.PkgName); ok {
				used[pn] = true
			}
		}
		return true
	})
	for _, spec := range f.Imports {
		var pn *types.PkgName
		if spec.Name != nil {
			if spec.Name.Name == "_" || spec.Name.Name == "." {
				continue
			}
			pn, _ = info.Defs[spec.Name].(*types.PkgName)
		} else {
			pn, _ = info.Implicits[spec].(*types.PkgName)
		}
		if pn != nil && !used[pn] {
			spec.Name = ast.NewIdent("_")
		}
	}
}

func addImport(f *ast.File, path string) {
	spec := &ast.ImportSpec{Name: ast.NewIdent(rtName), Path: &ast.BasicLit{Kind: token.STRING, Value: strconv.Quote(path)}}
	decl := &ast.GenDecl{Tok: token.IMPORT, Specs: []ast.Spec{spec}}
	// after existing imports (imports must come first)
	n := 0
	for n < len(f.Decls) {
		if g, ok := f.Decls[n].(*ast.GenDecl); ok && g.Tok == token.IMPORT {
			n++
			continue
		}
		break
	}
	f.Decls = append(f.Decls[:n], append([]ast.Decl{decl}, f.Decls[n:]...)...)
	f.Imports = append(f.Imports, spec)
}

// ---------------------------------------------------------------------------

func (rw *rewriter) newSite(pos token.Pos, what string) *ast.BasicLit {
	p := rw.fset.Position(pos)
	rel, err := filepath.Rel(rw.root, p.Filename)
	if err != nil {
		rel = p.Filename
	}
	id := len(rw.rep.Sites)
	ps := fmt.Sprintf("%s:%d", filepath.ToSlash(rel), p.Line)
	rw.rep.Sites = append(rw.rep.Sites, site{ID: id, Pos: ps, What: what, Func: rw.curFunc, Label: ps + " " + what})
	rw.rep.Counts[what]++
	rw.used = true
	return &ast.BasicLit{Kind: token.INT, Value: strconv.Itoa(id)}
}

func (rw *rewriter) uninstr(pos token.Pos, what string) {
	p := rw.fset.Position(pos)
	rel, _ := filepath.Rel(rw.root, p.Filename)
	rw.rep.Uninstrumented = append(rw.rep.Uninstrumented, fmt.Sprintf("%s:%d %s", filepath.ToSlash(rel), p.Line, what))
}

func rt(name string) ast.Expr {
	return &ast.SelectorExpr{X: ast.NewIdent(rtName), Sel: ast.NewIdent(name)}
}

func call(name string, args ...ast.Expr) *ast.CallExpr {
	return &ast.CallExpr{Fun: rt(name), Args: args}
}

func stmt(e ast.Expr) ast.Stmt { return &ast.ExprStmt{X: e} }

func (rw *rewriter) typeOf(e ast.Expr) types.Type {
	if tv, ok := rw.p.info.Types[e]; ok {
		return tv.Type
	}
	if id, ok := e.(*ast.Ident); ok {
		if o := rw.p.info.Uses[id]; o != nil {
			return o.Type()
		}
		if o := rw.p.info.Defs[id]; o != nil {
			return o.Type()
		}
	}
	return nil
}

func isChan(t types.Type) bool {
	if t == nil {
		return false
	}
	_, ok := t.Underlying().(*types.Chan)
	return ok
}

func isMap(t types.Type) bool {
	if t == nil {
		return false
	}
	_, ok := t.Underlying().(*types.Map)
	return ok
}

func unparen(e ast.Expr) ast.Expr {
	for {
		p, ok := e.(*ast.ParenExpr)
		if !ok {
			return e
		}
		e = p.X
	}
}

func (rw *rewriter) file(f *ast.File) {
	for _, d := range f.Decls {
		switch x := d.(type) {
		case *ast.FuncDecl:
			rw.curFunc = x.Name.Name
			if x.Recv != nil && len(x.Recv.List) > 0 {
				rw.curFunc = types.ExprString(x.Recv.List[0].Type) + "." + x.Name.Name
			}
			if x.Body != nil {
				rw.block(x.Body)
			}
		case *ast.GenDecl:
			rw.curFunc = "(package level)"
			// function literals in package-level initialisers
			for _, s := range x.Specs {
				if vs, ok := s.(*ast.ValueSpec); ok {
					rw.markRecv2Spec(vs)
					for i := range vs.Values {
						vs.Values[i] = rw.expr(vs.Values[i])
					}
				}
			}
		}
	}
}

func (rw *rewriter) block(b *ast.BlockStmt) {
	if b == nil {
		return
	}
	b.List = rw.stmts(b.List)
}

func (rw *rewriter) stmts(list []ast.Stmt) []ast.Stmt {
	var out []ast.Stmt
	for _, s := range list {
		r := rw.stmt(s)
		if b, ok := r.(*ast.BlockStmt); ok && rw.flatten[b] {
			out = append(out, b.List...)
			continue
		}
		out = append(out, r)
	}
	return out
}

func (rw *rewriter) markRecv2Spec(vs *ast.ValueSpec) {
	if len(vs.Names) == 2 && len(vs.Values) == 1 {
		if u, ok := unparen(vs.Values[0]).(*ast.UnaryExpr); ok && u.Op == token.ARROW {
			rw.recv2[u] = true
		}
	}
}

// syncMethod classifies a call expression x.M(...) on a sync type.
// Returns the type name ("Mutex", ...), method name and an expression for a
// pointer to the receiver.
func (rw *rewriter) syncMethod(c *ast.CallExpr) (tname, mname string, ptr ast.Expr, ok bool) {
	se, isSel := c.Fun.(*ast.SelectorExpr)
	if !isSel {
		return
	}
	sel := rw.p.info.Selections[se]
	if sel == nil || sel.Kind() != types.MethodVal {
		return
	}
	fn, isFn := sel.Obj().(*types.Func)
	if !isFn || fn.Pkg() == nil || fn.Pkg().Path() != "sync" {
		return
	}
	sig := fn.Type().(*types.Signature)
	if sig.Recv() == nil {
		return
	}
	rt := sig.Recv().Type()
	if p, isPtr := rt.(*types.Pointer); isPtr {
		rt = p.Elem()
	}
	named, isNamed := rt.(*types.Named)
	if !isNamed {
		return
	}
	tname = named.Obj().Name()
	mname = fn.Name()
	// build explicit path to the embedded field if the method is promoted
	x := se.X
	t := sel.Recv()
	idx := sel.Index()
	for _, fi := range idx[:len(idx)-1] {
		if p, isPtr := t.Underlying().(*types.Pointer); isPtr {
			t = p.Elem()
		}
		st, isStruct := t.Underlying().(*types.Struct)
		if !isStruct {
			return "", "", nil, false
		}
		fld := st.Field(fi)
		x = &ast.SelectorExpr{X: x, Sel: ast.NewIdent(fld.Name())}
		t = fld.Type()
	}
	if _, isPtr := t.Underlying().(*types.Pointer); isPtr {
		ptr = x
	} else {
		ptr = &ast.UnaryExpr{Op: token.AND, X: x}
	}
	ok = true
	return
}

// pkgFunc returns "pkg.Name" when c calls a package-level function of sync or runtime.
func (rw *rewriter) pkgFunc(c *ast.CallExpr) string {
	fun := c.Fun
	if ix, ok := fun.(*ast.IndexExpr); ok { // explicit instantiation: sync.OnceValue[int](f)
		fun = ix.X
	}
	if ix, ok := fun.(*ast.IndexListExpr); ok {
		fun = ix.X
	}
	se, ok := fun.(*ast.SelectorExpr)
	if !ok || rw.p.info.Selections[se] != nil {
		return ""
	}
	fn, _ := rw.p.info.Uses[se.Sel].(*types.Func)
	if fn == nil || fn.Pkg() == nil {
		return ""
	}
	if p := fn.Pkg().Path(); p == "sync" || p == "runtime" || p == "time" {
		if sig, _ := fn.Type().(*types.Signature); sig != nil && sig.Recv() == nil {
			return p + "." + fn.Name()
		}
	}
	return ""
}

// timeMethod: t.Reset/Stop on a *time.Timer or *time.Ticker; recv is a pointer expression.
func (rw *rewriter) timeMethod(c *ast.CallExpr) (recv ast.Expr, tname, mname string, ok bool) {
	se, isSel := c.Fun.(*ast.SelectorExpr)
	if !isSel {
		return
	}
	sel := rw.p.info.Selections[se]
	if sel == nil || sel.Kind() != types.MethodVal || len(sel.Index()) != 1 {
		return
	}
	fn, isFn := sel.Obj().(*types.Func)
	if !isFn || fn.Pkg() == nil || fn.Pkg().Path() != "time" {
		return
	}
	t := sel.Recv()
	isPtr := false
	if p, okp := t.(*types.Pointer); okp {
		t = p.Elem()
		isPtr = true
	}
	named, isNamed := t.(*types.Named)
	if !isNamed || (named.Obj().Name() != "Timer" && named.Obj().Name() != "Ticker") {
		return
	}
	recv = se.X
	if !isPtr {
		recv = &ast.UnaryExpr{Op: token.AND, X: se.X}
	}
	return recv, named.Obj().Name(), fn.Name(), true
}

// lockerMethod: x.Lock() / x.Unlock() where x has the interface type sync.Locker.
func (rw *rewriter) lockerMethod(c *ast.CallExpr) (recv ast.Expr, mname string, ok bool) {
	se, isSel := c.Fun.(*ast.SelectorExpr)
	if !isSel || len(c.Args) != 0 {
		return
	}
	sel := rw.p.info.Selections[se]
	if sel == nil || sel.Kind() != types.MethodVal {
		return
	}
	if n := se.Sel.Name; n != "Lock" && n != "Unlock" {
		return
	}
	named, isNamed := sel.Recv().(*types.Named)
	if !isNamed || named.Obj().Pkg() == nil || named.Obj().Pkg().Path() != "sync" || named.Obj().Name() != "Locker" {
		return
	}
	return se.X, se.Sel.Name, true
}

// atomicCall reports whether c calls into sync/atomic (function or method) or
// a method of sync.Map / sync.Pool, and how many results it has. These
// operations never block; they only get a scheduling point *after* them so
// that protocols built from them interleave (and spin-waits make progress).
func (rw *rewriter) atomicCall(c *ast.CallExpr) (name string, results int, ok bool) {
	var fn *types.Func
	switch f := c.Fun.(type) {
	case *ast.SelectorExpr:
		if sel := rw.p.info.Selections[f]; sel != nil {
			if sel.Kind() != types.MethodVal {
				return
			}
			fn, _ = sel.Obj().(*types.Func)
		} else {
			fn, _ = rw.p.info.Uses[f.Sel].(*types.Func)
		}
	case *ast.Ident:
		fn, _ = rw.p.info.Uses[f].(*types.Func)
	case *ast.IndexExpr: // generic instantiation, e.g. atomic.Pointer[T] methods are selectors; functions like atomic.X[T] do not exist yet
		return
	}
	if fn == nil || fn.Pkg() == nil {
		return
	}
	sig, _ := fn.Type().(*types.Signature)
	if sig == nil {
		return
	}
	switch fn.Pkg().Path() {
	case "sync/atomic":
	case "sync":
		if sig.Recv() == nil {
			return
		}
		rt := sig.Recv().Type()
		if p, isPtr := rt.(*types.Pointer); isPtr {
			rt = p.Elem()
		}
		named, isNamed := rt.(*types.Named)
		if !isNamed {
			return
		}
		if n := named.Obj().Name(); n != "Map" && n != "Pool" {
			return
		}
	default:
		return
	}
	return fn.Pkg().Name() + "." + fn.Name(), sig.Results().Len(), true
}

// expr rewrites an expression tree (post-order) and returns the replacement.
func (rw *rewriter) expr(e ast.Expr) ast.Expr {
	if e == nil {
		return nil
	}
	switch x := e.(type) {
	case *ast.FuncLit:
		saved, savedSimple := rw.curFunc, rw.simple
		rw.curFunc = saved + ".func"
		rw.simple = false
		rw.block(x.Body)
		rw.curFunc, rw.simple = saved, savedSimple
		return x
	case *ast.UnaryExpr:
		x.X = rw.expr(x.X)
		if x.Op == token.ARROW {
			name := "Recv"
			if rw.recv2[x] {
				name = "Recv2"
			}
			return call(name, x.X, rw.newSite(x.Pos(), "recv"))
		}
		return x
	case *ast.CallExpr:
		// children first
		x.Fun = rw.expr(x.Fun)
		for i := range x.Args {
			x.Args[i] = rw.expr(x.Args[i])
		}
		if name := rw.pkgFunc(x); name != "" {
			switch name {
			case "sync.OnceFunc", "sync.OnceValue", "sync.OnceValues":
				rw.newSite(x.Pos(), "once")
				x.Fun = rt(strings.TrimPrefix(name, "sync."))
				return x
			case "runtime.Gosched":
				if len(x.Args) == 0 {
					return call("Gosched", rw.newSite(x.Pos(), "gosched"))
				}
			case "time.Now":
				if len(x.Args) == 0 {
					return call("Now", rw.newSite(x.Pos(), "clock"))
				}
			case "time.Since", "time.Until":
				if len(x.Args) == 1 {
					return call(strings.TrimPrefix(name, "time."), x.Args[0], rw.newSite(x.Pos(), "clock"))
				}
			case "time.After", "time.NewTimer", "time.NewTicker", "time.Tick":
				if len(x.Args) == 1 {
					fn := map[string]string{"time.After": "TimeAfter", "time.NewTimer": "NewTimer", "time.NewTicker": "NewTicker", "time.Tick": "TimeTick"}[name]
					return call(fn, x.Args[0], rw.newSite(x.Pos(), "timer"))
				}
			}
		}
		if recv, tname, mname, ok := rw.timeMethod(x); ok {
			switch tname + "." + mname {
			case "Timer.Reset":
				if len(x.Args) == 1 {
					return call("TimerReset", recv, x.Args[0], rw.newSite(x.Pos(), "timer"))
				}
			case "Timer.Stop":
				return call("TimerStop", recv, rw.newSite(x.Pos(), "timer"))
			case "Ticker.Reset":
				if len(x.Args) == 1 {
					return call("TickerReset", recv, x.Args[0], rw.newSite(x.Pos(), "timer"))
				}
			case "Ticker.Stop":
				return call("TickerStop", recv, rw.newSite(x.Pos(), "timer"))
			}
		}
		if recv, mname, ok := rw.lockerMethod(x); ok {
			if mname == "Lock" {
				return call("LockerLock", recv, rw.newSite(x.Pos(), "lock"))
			}
			return call("LockerUnlock", recv, rw.newSite(x.Pos(), "unlock"))
		}
		if tname, mname, ptr, ok := rw.syncMethod(x); ok {
			switch tname + "." + mname {
			case "Mutex.Lock":
				return call("Lock", ptr, rw.newSite(x.Pos(), "lock"))
			case "Mutex.Unlock":
				return call("Unlock", ptr, rw.newSite(x.Pos(), "unlock"))
			case "Mutex.TryLock":
				return call("TryLock", ptr, rw.newSite(x.Pos(), "trylock"))
			case "RWMutex.Lock":
				return call("WLock", ptr, rw.newSite(x.Pos(), "lock"))
			case "RWMutex.Unlock":
				return call("WUnlock", ptr, rw.newSite(x.Pos(), "unlock"))
			case "RWMutex.RLock":
				return call("RLock", ptr, rw.newSite(x.Pos(), "rlock"))
			case "RWMutex.RUnlock":
				return call("RUnlock", ptr, rw.newSite(x.Pos(), "runlock"))
			case "Pool.Get":
				if len(x.Args) == 0 {
					return call("PoolGet", ptr, rw.newSite(x.Pos(), "pool.get"))
				}
			case "Pool.Put":
				if len(x.Args) == 1 {
					return call("PoolPut", ptr, x.Args[0], rw.newSite(x.Pos(), "pool.put"))
				}
			case "Cond.Wait":
				return call("CondWait", ptr, rw.newSite(x.Pos(), "condwait"))
			case "Cond.Signal":
				return call("CondSignal", ptr, rw.newSite(x.Pos(), "signal"))
			case "Cond.Broadcast":
				return call("CondBroadcast", ptr, rw.newSite(x.Pos(), "broadcast"))
			case "Once.Do":
				if len(x.Args) == 1 {
					return call("OnceDo", ptr, x.Args[0], rw.newSite(x.Pos(), "once"))
				}
			}
			// everything else on a sync type is handled at statement level (see stmt) or not at all
		}
		if name, nres, ok := rw.atomicCall(x); ok {
			switch {
			case rw.noWrap[x]:
				// scheduling point added at statement level
			case nres == 1:
				return call("After", x, rw.newSite(x.Pos(), "atomic:"+name))
			case nres >= 2:
				rw.uninstr(x.Pos(), "atomic:"+name+" (multi-value context)")
			}
		}
		return x
	}
	// generic: walk fields that hold expressions / statements
	rw.walkFields(e)
	return e
}

// walkFields rewrites all ast.Expr / ast.Stmt / slices thereof in the struct behind n.
func (rw *rewriter) walkFields(n ast.Node) {
	v := reflect.ValueOf(n)
	if v.Kind() != reflect.Ptr || v.IsNil() {
		return
	}
	v = v.Elem()
	if v.Kind() != reflect.Struct {
		return
	}
	exprT := reflect.TypeOf((*ast.Expr)(nil)).Elem()
	stmtT := reflect.TypeOf((*ast.Stmt)(nil)).Elem()
	for i := 0; i < v.NumField(); i++ {
		f := v.Field(i)
		if !f.CanSet() {
			continue
		}
		switch {
		case f.Type() == exprT:
			if !f.IsNil() {
				r := rw.expr(f.Interface().(ast.Expr))
				f.Set(reflect.ValueOf(&r).Elem())
			}
		case f.Type() == stmtT:
			if !f.IsNil() {
				if fn := v.Type().Field(i).Name; fn == "Init" || fn == "Post" {
					if ss, ok := f.Interface().(*ast.SendStmt); ok {
						// a simple statement slot cannot hold a block: leave the send alone
						rw.uninstr(ss.Pos(), "send in init/post statement")
						ss.Chan = rw.expr(ss.Chan)
						ss.Value = rw.expr(ss.Value)
						continue
					}
				}
				fn := v.Type().Field(i).Name
				saved := rw.simple
				if fn == "Init" || fn == "Post" || fn == "Assign" {
					rw.simple = true
				}
				r := rw.stmt(f.Interface().(ast.Stmt))
				rw.simple = saved
				f.Set(reflect.ValueOf(&r).Elem())
			}
		case f.Kind() == reflect.Slice && f.Type().Elem() == exprT:
			for j := 0; j < f.Len(); j++ {
				el := f.Index(j)
				if !el.IsNil() {
					r := rw.expr(el.Interface().(ast.Expr))
					el.Set(reflect.ValueOf(&r).Elem())
				}
			}
		case f.Kind() == reflect.Slice && f.Type().Elem() == stmtT:
			for j := 0; j < f.Len(); j++ {
				el := f.Index(j)
				if !el.IsNil() {
					r := rw.stmt(el.Interface().(ast.Stmt))
					el.Set(reflect.ValueOf(&r).Elem())
				}
			}
		case f.Kind() == reflect.Ptr && !f.IsNil():
			switch c := f.Interface().(type) {
			case *ast.BlockStmt:
				rw.block(c)
			case *ast.FuncLit:
				rw.expr(c)
			case *ast.CallExpr:
				r := rw.expr(c)
				if rc, ok := r.(*ast.CallExpr); ok {
					f.Set(reflect.ValueOf(rc))
				}
			case *ast.FieldList, *ast.Ident, *ast.BasicLit, *ast.CommentGroup, *ast.Object, *ast.FuncType:
				// no executable code
			}
		}
	}
}

func (rw *rewriter) stmt(s ast.Stmt) ast.Stmt {
	if s == nil {
		return nil
	}
	switch x := s.(type) {
	case *ast.BlockStmt:
		rw.block(x)
		return x

	case *ast.LabeledStmt:
		if sel, ok := x.Stmt.(*ast.SelectStmt); ok {
			pre := rw.selectStmt(sel)
			return &ast.BlockStmt{List: append(pre, x)}
		}
		x.Stmt = rw.stmt(x.Stmt)
		return x

	case *ast.SelectStmt:
		pre := rw.selectStmt(x)
		return &ast.BlockStmt{List: append(pre, x)}

	case *ast.GoStmt:
		return rw.goStmt(x)

	case *ast.SendStmt:
		x.Chan = rw.expr(x.Chan)
		x.Value = rw.expr(x.Value)
		id := rw.newSite(x.Pos(), "send")
		// the channel expression is evaluated three times; only do that when it is side-effect free
		if !pureExpr(x.Chan) {
			tmp := ast.NewIdent("zzCh" + id.Value)
			return &ast.BlockStmt{List: []ast.Stmt{
				&ast.AssignStmt{Lhs: []ast.Expr{tmp}, Tok: token.DEFINE, Rhs: []ast.Expr{x.Chan}},
				stmt(call("PreSend", tmp, id)),
				&ast.SendStmt{Chan: tmp, Value: x.Value},
				stmt(call("PostSend", tmp, id)),
			}}
		}
		return &ast.BlockStmt{List: []ast.Stmt{
			stmt(call("PreSend", x.Chan, id)),
			x,
			stmt(call("PostSend", x.Chan, id)),
		}}

	case *ast.AssignStmt:
		if len(x.Lhs) == 2 && len(x.Rhs) == 1 {
			if u, ok := unparen(x.Rhs[0]).(*ast.UnaryExpr); ok && u.Op == token.ARROW {
				rw.recv2[u] = true
			}
		}
		if len(x.Rhs) == 1 && !rw.simple {
			if c, ok := unparen(x.Rhs[0]).(*ast.CallExpr); ok {
				if name, nres, isAt := rw.atomicCall(c); isAt && nres >= 2 {
					rw.noWrap[c] = true
					for i := range x.Lhs {
						x.Lhs[i] = rw.expr(x.Lhs[i])
					}
					x.Rhs[0] = rw.expr(x.Rhs[0])
					sid := rw.newSite(x.Pos(), "atomic:"+name)
					b := &ast.BlockStmt{List: []ast.Stmt{x, stmt(call("PostSync", sid))}}
					rw.flatten[b] = true
					return b
				}
			}
		}
		for i := range x.Lhs {
			x.Lhs[i] = rw.expr(x.Lhs[i])
		}
		for i := range x.Rhs {
			x.Rhs[i] = rw.expr(x.Rhs[i])
		}
		return x

	case *ast.DeclStmt:
		if gd, ok := x.Decl.(*ast.GenDecl); ok {
			for _, sp := range gd.Specs {
				if vs, ok := sp.(*ast.ValueSpec); ok {
					rw.markRecv2Spec(vs)
					for i := range vs.Values {
						vs.Values[i] = rw.expr(vs.Values[i])
					}
				}
			}
		}
		return x

	case *ast.RangeStmt:
		t := rw.typeOf(x.X)
		x.X = rw.expr(x.X)
		switch {
		case isChan(t):
			x.X = call("RangeChan", x.X, rw.newSite(x.Pos(), "rangechan"))
		case isMap(t):
			x.X = call("RangeMap", x.X, rw.newSite(x.Pos(), "rangemap"))
		}
		if x.Key != nil {
			x.Key = rw.expr(x.Key)
		}
		if x.Value != nil {
			x.Value = rw.expr(x.Value)
		}
		rw.block(x.Body)
		return x

	case *ast.ExprStmt:
		if rw.simple {
			x.X = rw.expr(x.X)
			return x
		}
		if c, ok := x.X.(*ast.CallExpr); ok {
			// close(ch)
			if id, ok := c.Fun.(*ast.Ident); ok && id.Name == "close" && len(c.Args) == 1 {
				if _, isBuiltin := rw.p.info.Uses[id].(*types.Builtin); isBuiltin {
					c.Args[0] = rw.expr(c.Args[0])
					sid := rw.newSite(x.Pos(), "close")
					if !pureExpr(c.Args[0]) {
						tmp := ast.NewIdent("zzCh" + sid.Value)
						return &ast.BlockStmt{List: []ast.Stmt{
							&ast.AssignStmt{Lhs: []ast.Expr{tmp}, Tok: token.DEFINE, Rhs: []ast.Expr{c.Args[0]}},
							stmt(call("PreClose", tmp, sid)),
							stmt(&ast.CallExpr{Fun: id, Args: []ast.Expr{tmp}}),
							stmt(call("PostClose", tmp, sid)),
						}}
					}
					return &ast.BlockStmt{List: []ast.Stmt{
						stmt(call("PreClose", c.Args[0], sid)),
						x,
						stmt(call("PostClose", c.Args[0], sid)),
					}}
				}
			}
			// unmodelled sync operations: bracket with scheduling points
			if tname, mname, _, ok := rw.syncMethod(c); ok && bracketed(tname, mname) {
				x.X = rw.expr(x.X)
				sid := rw.newSite(x.Pos(), "sync:"+tname+"."+mname)
				return &ast.BlockStmt{List: []ast.Stmt{
					stmt(call("PreSync", sid)),
					x,
					stmt(call("PostSync", sid)),
				}}
			}
		}
		if c, ok := x.X.(*ast.CallExpr); ok {
			if name, nres, isAt := rw.atomicCall(c); isAt && nres != 1 {
				rw.noWrap[c] = true
				x.X = rw.expr(x.X)
				sid := rw.newSite(x.Pos(), "atomic:"+name)
				return &ast.BlockStmt{List: []ast.Stmt{x, stmt(call("PostSync", sid))}}
			}
		}
		x.X = rw.expr(x.X)
		return x

	case *ast.DeferStmt:
		if id, ok := x.Call.Fun.(*ast.Ident); ok && id.Name == "close" && len(x.Call.Args) == 1 {
			if _, isBuiltin := rw.p.info.Uses[id].(*types.Builtin); isBuiltin {
				x.Call.Args[0] = rw.expr(x.Call.Args[0])
				sid := rw.newSite(x.Pos(), "close")
				tmp := ast.NewIdent("zzCh" + sid.Value)
				body := &ast.BlockStmt{List: []ast.Stmt{
					stmt(call("PreClose", tmp, sid)),
					stmt(&ast.CallExpr{Fun: id, Args: []ast.Expr{tmp}}),
					stmt(call("PostClose", tmp, sid)),
				}}
				// zzCh := ch; defer func(){...}()   (argument evaluated at defer time, as in the original)
				return &ast.BlockStmt{List: []ast.Stmt{
					&ast.AssignStmt{Lhs: []ast.Expr{tmp}, Tok: token.DEFINE, Rhs: []ast.Expr{x.Call.Args[0]}},
					&ast.DeferStmt{Call: &ast.CallExpr{Fun: &ast.FuncLit{Type: &ast.FuncType{Params: &ast.FieldList{}}, Body: body}}},
				}}
			}
		}
		if tname, mname, _, ok := rw.syncMethod(x.Call); ok && bracketed(tname, mname) {
			sid := rw.newSite(x.Pos(), "sync:"+tname+"."+mname)
			for i := range x.Call.Args {
				x.Call.Args[i] = rw.expr(x.Call.Args[i])
			}
			body := &ast.BlockStmt{List: []ast.Stmt{
				stmt(call("PreSync", sid)),
				stmt(x.Call),
				stmt(call("PostSync", sid)),
			}}
			return &ast.DeferStmt{Call: &ast.CallExpr{Fun: &ast.FuncLit{Type: &ast.FuncType{Params: &ast.FieldList{}}, Body: body}}}
		}
		// A deferred call must stay THE deferred call: wrapping it as an argument (After(call))
		// would evaluate it at the defer statement instead of at function exit.
		if name, _, isAt := rw.atomicCall(x.Call); isAt {
			rw.noWrap[x.Call] = true
			r := rw.expr(x.Call)
			if rc, ok := r.(*ast.CallExpr); ok && rc == x.Call {
				sid := rw.newSite(x.Pos(), "atomic:"+name)
				body := &ast.BlockStmt{List: []ast.Stmt{stmt(x.Call), stmt(call("PostSync", sid))}}
				return &ast.DeferStmt{Call: &ast.CallExpr{Fun: &ast.FuncLit{Type: &ast.FuncType{Params: &ast.FieldList{}}, Body: body}}}
			}
		}
		r := rw.expr(x.Call)
		if rc, ok := r.(*ast.CallExpr); ok {
			x.Call = rc
		}
		return x
	}
	// if / for / switch / typeswitch / return / incdec / case clauses ...
	rw.walkFields(s)
	return s
}

// a "defer { block }" is not Go: the defer-close rewrite above returns a block
// whose last statement is the defer, which would run at the end of that block's
// *function* (defer is function scoped, not block scoped) — correct.

func bracketed(tname, mname string) bool {
	switch tname {
	case "WaitGroup":
		return mname == "Add" || mname == "Done" || mname == "Wait"
	}
	return false
}

func pureExpr(e ast.Expr) bool {
	switch x := e.(type) {
	case *ast.Ident:
		return true
	case *ast.SelectorExpr:
		return pureExpr(x.X)
	case *ast.ParenExpr:
		return pureExpr(x.X)
	case *ast.StarExpr:
		return pureExpr(x.X)
	}
	return false
}

// selectStmt hands the choice among the clauses to the scheduler and returns
// the statements that must precede the (modified) select:
//
//	zzc0, zzc1 := ch1, ch2                  // channel operands, evaluated once, in source order
//	zzi := zz_simrt.Select(site, hasDefault, zz_simrt.SendCase(zzc0), zz_simrt.RecvCase(zzc1))
//	if zzi != -2 {                          // -2: no simulator attached, the select runs as written
//		if zzi != 0 { zzc0 = nil }          // a nil channel is never selected: only the chosen
//		if zzi != 1 { zzc1 = nil }          // clause (or default, for -1) can be taken
//	}
//	select { case zzc0 <- v: ...; case x := <-zzc1: ...; default: ... }
func (rw *rewriter) selectStmt(s *ast.SelectStmt) []ast.Stmt {
	sid := rw.newSite(s.Pos(), "select")
	idx := ast.NewIdent("zzSel" + sid.Value)
	var pre []ast.Stmt
	var cases []ast.Expr
	var disable []ast.Stmt
	hasDefault := false
	n := 0
	for _, c := range s.Body.List {
		cc := c.(*ast.CommClause)
		cc.Body = rw.stmts(cc.Body)
		cc.Body = append([]ast.Stmt{stmt(call("PostSelect", sid))}, cc.Body...)
		if cc.Comm == nil {
			hasDefault = true
			continue
		}
		tmp := ast.NewIdent(fmt.Sprintf("zzSelCh%s_%d", sid.Value, n))
		var chExpr ast.Expr
		send := false
		switch cm := cc.Comm.(type) {
		case *ast.SendStmt:
			send = true
			chExpr = rw.expr(cm.Chan)
			cm.Chan = tmp
			cm.Value = rw.expr(cm.Value)
		case *ast.ExprStmt:
			if u, ok := unparen(cm.X).(*ast.UnaryExpr); ok && u.Op == token.ARROW {
				chExpr = rw.expr(u.X)
				u.X = tmp
			}
		case *ast.AssignStmt:
			if len(cm.Rhs) == 1 {
				if u, ok := unparen(cm.Rhs[0]).(*ast.UnaryExpr); ok && u.Op == token.ARROW {
					chExpr = rw.expr(u.X)
					u.X = tmp
				}
			}
			for i := range cm.Lhs {
				cm.Lhs[i] = rw.expr(cm.Lhs[i])
			}
		}
		if chExpr == nil {
			fatal("%s: select clause of unknown shape", rw.fset.Position(cc.Pos()))
		}
		pre = append(pre, &ast.AssignStmt{Lhs: []ast.Expr{tmp}, Tok: token.DEFINE, Rhs: []ast.Expr{chExpr}})
		ctor := "RecvCase"
		if send {
			ctor = "SendCase"
		}
		cases = append(cases, call(ctor, tmp))
		disable = append(disable, &ast.IfStmt{
			Cond: &ast.BinaryExpr{X: idx, Op: token.NEQ, Y: &ast.BasicLit{Kind: token.INT, Value: strconv.Itoa(n)}},
			Body: &ast.BlockStmt{List: []ast.Stmt{&ast.AssignStmt{Lhs: []ast.Expr{tmp}, Tok: token.ASSIGN, Rhs: []ast.Expr{ast.NewIdent("nil")}}}},
		})
		n++
	}
	deflt := ast.NewIdent("false")
	if hasDefault {
		deflt = ast.NewIdent("true")
	}
	args := append([]ast.Expr{sid, deflt}, cases...)
	pre = append(pre, &ast.AssignStmt{Lhs: []ast.Expr{idx}, Tok: token.DEFINE, Rhs: []ast.Expr{call("Select", args...)}})
	if len(disable) > 0 {
		pre = append(pre, &ast.IfStmt{
			Cond: &ast.BinaryExpr{X: idx, Op: token.NEQ, Y: &ast.UnaryExpr{Op: token.SUB, X: &ast.BasicLit{Kind: token.INT, Value: "2"}}},
			Body: &ast.BlockStmt{List: disable},
		})
	} else {
		pre = append(pre, &ast.AssignStmt{Lhs: []ast.Expr{ast.NewIdent("_")}, Tok: token.ASSIGN, Rhs: []ast.Expr{idx}})
	}
	return pre
}

func (rw *rewriter) goStmt(g *ast.GoStmt) ast.Stmt {
	sid := rw.newSite(g.Pos(), "go")
	tok := ast.NewIdent("zzTok" + sid.Value)
	getTok := &ast.AssignStmt{Lhs: []ast.Expr{tok}, Tok: token.DEFINE, Rhs: []ast.Expr{call("Spawn", sid)}}
	start := stmt(call("Start", tok, sid))
	gone := &ast.DeferStmt{Call: call("Done")}

	if fl, ok := g.Call.Fun.(*ast.FuncLit); ok {
		saved := rw.curFunc
		rw.curFunc = saved + ".go"
		rw.block(fl.Body)
		rw.curFunc = saved
		for i := range g.Call.Args {
			g.Call.Args[i] = rw.expr(g.Call.Args[i])
		}
		fl.Body.List = append([]ast.Stmt{start, gone}, fl.Body.List...)
		return &ast.BlockStmt{List: []ast.Stmt{getTok, g}}
	}

	// go f(a, b...)  =>  { tok := Spawn(); zzF, zzA0 := f, a; go func(){ Start(tok); zzF(zzA0, b...) }() }
	rw.noWrap[g.Call] = true
	g.Call.Fun = rw.expr(g.Call.Fun)
	var lhs, rhs []ast.Expr
	fn := g.Call.Fun
	isBuiltin := false
	if id, ok := unparen(fn).(*ast.Ident); ok {
		if _, b := rw.p.info.Uses[id].(*types.Builtin); b {
			isBuiltin = true
		}
	}
	if tv, ok := rw.p.info.Types[g.Call.Fun]; ok && tv.IsType() {
		isBuiltin = true // conversion; leave as is
	}
	if isBuiltin {
		rw.uninstr(g.Pos(), "go <builtin/conversion>")
		return g
	}
	fv := ast.NewIdent("zzF" + sid.Value)
	lhs = append(lhs, fv)
	rhs = append(rhs, fn)
	args := make([]ast.Expr, len(g.Call.Args))
	for i, a := range g.Call.Args {
		a = rw.expr(a)
		if tv, ok := rw.p.info.Types[a]; ok && (tv.Value != nil || tv.IsNil()) {
			args[i] = a // constants and nil stay inline (untyped)
			continue
		}
		av := ast.NewIdent(fmt.Sprintf("zzA%s_%d", sid.Value, i))
		lhs = append(lhs, av)
		rhs = append(rhs, a)
		args[i] = av
	}
	inner := &ast.CallExpr{Fun: fv, Args: args, Ellipsis: g.Call.Ellipsis}
	if g.Call.Ellipsis == token.NoPos {
		inner.Ellipsis = token.NoPos
	} else {
		inner.Ellipsis = 1
	}
	lit := &ast.FuncLit{Type: &ast.FuncType{Params: &ast.FieldList{}}, Body: &ast.BlockStmt{List: []ast.Stmt{start, gone, stmt(inner)}}}
	return &ast.BlockStmt{List: []ast.Stmt{
		getTok,
		&ast.AssignStmt{Lhs: lhs, Tok: token.DEFINE, Rhs: rhs},
		&ast.GoStmt{Call: &ast.CallExpr{Fun: lit}},
	}}
}
