module example.com/synth

go 1.23
