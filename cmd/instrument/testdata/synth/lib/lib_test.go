package lib

import (
	"reflect"
	"testing"
)

func TestAll(t *testing.T) {
	b := &Box{}
	if b.Inc() != 1 || b.Inc() != 2 {
		t.Fatal("Box")
	}
	d := NewDeep()
	d.Set("a", 1)
	if v, ok := d.Get("a"); !ok || v != 1 {
		t.Fatal("Deep")
	}
	if got := Squares(10, 4); !reflect.DeepEqual(got, []int{0, 1, 4, 9}) {
		t.Fatal("Squares", got)
	}
	if got := Squares(3, 100); !reflect.DeepEqual(got, []int{0, 1, 4}) {
		t.Fatal("Squares full", got)
	}
	if s, tot := FanOut([]int{1, 2, 3, 4}); s != 10 || tot != 10 {
		t.Fatal("FanOut", s, tot)
	}
	if Lookup('c') != 2 || Lookup('c') != 2 || Lookup('z') != 0 {
		t.Fatal("Lookup")
	}
	if got := Keys(map[string]int{"b": 1, "a": -2, "c": 3}); !reflect.DeepEqual(got, []string{"a", "b", "c"}) {
		t.Fatal("Keys", got)
	}
	if got := BuildOnce(5); !reflect.DeepEqual(got, []int{42, 42, 42, 42, 42}) {
		t.Fatal("BuildOnce", got)
	}
	ch := make(chan int, 1)
	if !TrySend(ch, 1) || TrySend(ch, 2) {
		t.Fatal("TrySend")
	}
	if InitSend(make(chan int, 1)) != 9 {
		t.Fatal("InitSend")
	}
	if Timeout() != -1 || Cancel() != 7 || CancelSelect() != 3 || AfterFunc() != 5 {
		t.Fatal("timers / context")
	}
	if got := IdleStream(4); !reflect.DeepEqual(got, []int{0, 1, 2, 3}) || Ticks() != 3 {
		t.Fatal("IdleStream / Ticks", got)
	}
	if v := DeferredAtomic(); v != 1 {
		t.Fatal("DeferredAtomic", v)
	}
	if Misc(3) != 11 {
		t.Fatal("Misc", Misc(3))
	}
}
