// Package lib exercises every construct cmd/instrument rewrites.
package lib

import (
	"context"
	"runtime"
	"sort"
	"sync"
	"sync/atomic"
	"time"
)

type Box struct {
	sync.Mutex // promoted Lock/Unlock
	n          int
}

type Deep struct {
	b  *Box
	rw sync.RWMutex
	m  map[string]int
}

func (b *Box) Inc() int {
	b.Lock()
	defer b.Unlock()
	b.n++
	return b.n
}

func (d *Deep) Get(k string) (int, bool) {
	d.rw.RLock()
	defer d.rw.RUnlock()
	v, ok := d.m[k]
	return v, ok
}

func (d *Deep) Set(k string, v int) {
	d.rw.Lock()
	d.m[k] = v
	d.rw.Unlock()
	d.b.Inc()
}

// Shared is contended by every caller.
var Shared = &Box{}

func NewDeep() *Deep { return &Deep{b: &Box{}, m: map[string]int{}} }

// Pipeline: producer with select on done, labelled break, defer close.
func Squares(n int, stopAfter int) []int {
	out := make(chan int)
	done := make(chan struct{})
	go func() {
		defer close(out)
	loop:
		for i := 0; i < n; i++ {
			select {
			case out <- i * i:
			case <-done:
				break loop
			}
		}
	}()
	var res []int
	for v := range out {
		res = append(res, v)
		if len(res) == stopAfter {
			close(done)
			break
		}
	}
	return res
}

func worker(id int, in <-chan int, out chan<- int, wg *sync.WaitGroup) {
	defer wg.Done()
	for v := range in {
		out <- v*10 + id
	}
}

type summer struct{ total atomic.Int64 }

func (s *summer) run(vals []int, done chan<- bool) {
	for _, v := range vals {
		s.total.Add(int64(v))
	}
	done <- true
}

// FanOut: go with arguments, method value passed to go, WaitGroup, buffered channels,
// send in an if-init, receive in a for-init / condition, two-value receive.
func FanOut(vals []int) (int, int64) {
	in := make(chan int, len(vals))
	out := make(chan int, len(vals))
	var wg sync.WaitGroup
	for id := 0; id < 3; id++ {
		wg.Add(1)
		go worker(id, in, out, &wg)
	}
	for _, v := range vals {
		in <- v
	}
	close(in)
	wg.Wait()
	close(out)
	sum := 0
	for {
		v, ok := <-out
		if !ok {
			break
		}
		sum += v / 10
	}
	s := &summer{}
	done := make(chan bool, 1)
	f := s.run
	go f(vals, done)
	if ok := <-done; !ok {
		return -1, 0
	}
	var ctr int32
	if atomic.AddInt32(&ctr, 2) != 2 {
		return -2, 0
	}
	atomic.StoreInt32(&ctr, 5)
	old := atomic.SwapInt32(&ctr, 7)
	_ = old
	return sum, s.total.Load()
}

var (
	once  sync.Once
	table map[rune]int
	memo  sync.Map
	pool  = sync.Pool{New: func() any { return new([16]int) }}
)

func Lookup(r rune) int {
	once.Do(func() {
		table = map[rune]int{}
		for i, c := range "abcdef" {
			table[c] = i
		}
	})
	if v, ok := memo.Load(r); ok {
		return v.(int)
	}
	buf := pool.Get().(*[16]int)
	buf[0] = table[r]
	res := buf[0]
	pool.Put(buf)
	actual, loaded := memo.LoadOrStore(r, res)
	_ = loaded
	return actual.(int)
}

// Keys: range over a map, order-independent result.
func Keys(m map[string]int) []string {
	var ks []string
	for k := range m {
		ks = append(ks, k)
	}
	sort.Strings(ks)
	total := 0
	for _, v := range m {
		total += v
	}
	for k, v := range m {
		if v < 0 {
			delete(m, k)
		}
	}
	_ = total
	return ks
}

type gate struct {
	mu    sync.Mutex
	cond  *sync.Cond
	ready bool
	val   int
}

// BuildOnce: one builder, others wait on a Cond (Broadcast).
func BuildOnce(n int) []int {
	g := &gate{}
	g.cond = sync.NewCond(&g.mu)
	res := make([]int, n)
	var wg sync.WaitGroup
	for i := 0; i < n; i++ {
		wg.Add(1)
		go func(i int) {
			defer wg.Done()
			g.mu.Lock()
			if i == 0 {
				g.val = 42
				g.ready = true
				g.cond.Broadcast()
			}
			for !g.ready {
				g.cond.Wait()
			}
			res[i] = g.val
			g.mu.Unlock()
		}(i)
	}
	wg.Wait()
	return res
}

// TrySend: select with default, send used as statement in a for post position is not legal Go,
// but a send can be an init statement.
func TrySend(ch chan int, v int) bool {
	select {
	case ch <- v:
		return true
	default:
		return false
	}
}

func InitSend(ch chan int) int {
	if ch <- 9; cap(ch) > 0 {
		return <-ch
	}
	return -1
}

// Timeout: a result that never comes, a timer that does.
func Timeout() int {
	never := make(chan int)
	select {
	case v := <-never:
		return v
	case <-time.After(50 * time.Millisecond):
		return -1
	}
}

// Cancel: a worker waits for ctx.Done() (closed by the context package, which
// is not instrumented) and reports; the caller cancels and joins.
func Cancel() int {
	ctx, cancel := context.WithCancel(context.Background())
	out := make(chan int, 1)
	go func() {
		<-ctx.Done()
		out <- 7
	}()
	cancel()
	return <-out
}

// CancelSelect: the same with a select between work and ctx.Done().
func CancelSelect() int {
	ctx, cancel := context.WithCancel(context.Background())
	defer cancel()
	work := make(chan int)
	res := make(chan int, 1)
	go func() {
		n := 0
		for {
			select {
			case v := <-work:
				n += v
			case <-ctx.Done():
				res <- n
				return
			}
		}
	}()
	work <- 1
	work <- 2
	cancel()
	return <-res
}

// AfterFunc: a callback on a runtime-started goroutine.
func AfterFunc() int {
	got := make(chan int, 1)
	t := time.AfterFunc(10*time.Millisecond, func() { got <- 5 })
	defer t.Stop()
	return <-got
}

var onceTable = sync.OnceValue(func() map[int]int {
	m := map[int]int{}
	for i := 0; i < 8; i++ {
		m[i] = i * i
	}
	return m
})

// Misc: OnceValue, Locker interface values (Mutex, RWMutex.RLocker), Gosched spin then block.
func Misc(k int) int {
	v := onceTable()[k%8]
	var rw sync.RWMutex
	var l sync.Locker = rw.RLocker()
	l.Lock()
	v += 1
	l.Unlock()
	var mu sync.Mutex
	l = &mu
	l.Lock()
	v += 1
	l.Unlock()
	var flag atomic.Bool
	done := make(chan struct{})
	go func() {
		for i := 0; i < 3 && !flag.Load(); i++ {
			runtime.Gosched()
		}
		close(done)
	}()
	flag.Store(true)
	<-done
	return v
}

// IdleStream: a producer that gives up when the consumer is silent for a second.
// With a prompt consumer the result is complete.
func IdleStream(n int) []int {
	out := make(chan int)
	go func() {
		defer close(out)
		idle := time.NewTimer(time.Second)
		defer idle.Stop()
		for i := 0; i < n; i++ {
			if !idle.Stop() {
				select {
				case <-idle.C:
				default:
				}
			}
			idle.Reset(time.Second)
			select {
			case out <- i:
			case <-idle.C:
				return
			}
		}
	}()
	var res []int
	for v := range out {
		res = append(res, v)
	}
	return res
}

// Ticks: count three ticks of a ticker.
func Ticks() int {
	t := time.NewTicker(10 * time.Millisecond)
	defer t.Stop()
	n := 0
	for range t.C {
		n++
		if n == 3 {
			break
		}
	}
	return n
}

var live atomic.Int32

// DeferredAtomic: the deferred decrement must run at function exit, not at the defer statement.
func DeferredAtomic() int32 {
	seen := make(chan int32, 1)
	done := make(chan struct{})
	go func() {
		live.Add(1)
		defer live.Add(-1)
		seen <- live.Load()
		<-done
	}()
	v := <-seen
	close(done)
	return v
}
