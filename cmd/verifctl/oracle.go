package main

import (
	"encoding/json"
	"fmt"
	"os"
	"path/filepath"
	"sort"
	"strconv"
	"strings"
	"sync"
	"time"

	. "verif/simtypes"
)

// Ref is what a call does when it is the only call of a fresh process.
type Ref struct {
	Class       string `json:"class"`
	Digest      string `json:"digest,omitempty"`
	Steps       int    `json:"steps"`
	W           int    `json:"w,omitempty"`
	H           int    `json:"h,omitempty"`
	Unavailable string `json:"unavailable,omitempty"` // the call does not even finish alone
	LeaksAlone  int    `json:"leaks_alone,omitempty"`
}

type RefTable struct {
	mu   sync.Mutex
	m    map[string]*Ref
	runs int
}

func newRefTable() *RefTable { return &RefTable{m: map[string]*Ref{}} }

func soloCall(c *Call) Call {
	d := *c
	d.Share = false
	d.Mut = false
	if d.Fn == "rs" {
		d.H = 0
	}
	if d.Src != nil {
		s := *d.Src
		s.Mut = false
		d.Src = &s
	}
	return d
}

func soloSegment(c *Call) *Segment {
	return &Segment{Kind: "calls", Seed: 1, Policy: Policy{Name: "fifo"}, MapMode: 0,
		Phases: [][][]Call{{{soloCall(c)}}}}
}

// Scenario is one unit of exploration: a sequence of process lifetimes.
type Scenario struct {
	ID       int       `json:"id"`
	Seed     uint64    `json:"seed"`
	Property string    `json:"property"`
	Race     bool      `json:"race"`
	Segments []Segment `json:"segments"`
	Note     string    `json:"note,omitempty"`
}

// Violation is one property violation found in a scenario.
type Violation struct {
	Class  string `json:"class"` // result-differs | result-changed-later | input-modified | aliasing | panic | goroutine-panic | deadlock | livelock | goroutine-left-running | data-race | model-divergence
	Fn     string `json:"fn,omitempty"`
	What   string `json:"what,omitempty"`
	Detail string `json:"detail"`
	Seg    int    `json:"seg"`
	Phase  int    `json:"phase"`
	Worker int    `json:"worker"`
	Call   int    `json:"call"`
	Extra  string `json:"extra,omitempty"` // race report / stacks / dump (truncated)
}

func (v Violation) key() string { return v.Class + "|" + v.Fn + "|" + v.What }

// Executor runs segments in parallel node processes.
type Executor struct {
	b        *Build
	par      int
	sem      chan struct{}
	mu       sync.Mutex
	segRuns  int
	raceRuns int
	hangs    int
	stats    *Stats
}

func newExecutor(b *Build, par int, st *Stats) *Executor {
	return &Executor{b: b, par: par, sem: make(chan struct{}, par), stats: st}
}

func (e *Executor) run(seg *Segment, race bool) *RunOut {
	e.sem <- struct{}{}
	defer func() { <-e.sem }()
	to := 15 * time.Minute
	if v, err := strconv.Atoi(os.Getenv("VERIF_NODE_TIMEOUT_S")); err == nil && v > 0 {
		to = time.Duration(v) * time.Second
	}
	out := e.b.RunSegment(seg, RunOpts{Race: race, Timeout: to})
	e.mu.Lock()
	e.segRuns++
	if race {
		e.raceRuns++
	}
	e.mu.Unlock()
	return out
}

// computeRefs fills the table for every distinct call (by refKey) in calls.
func (e *Executor) computeRefs(rt *RefTable, calls []*Call) error {
	todo := map[string]*Call{}
	rt.mu.Lock()
	for _, c := range calls {
		if c.Fn == "bitlist" {
			continue
		}
		k := refKey(c)
		if _, ok := rt.m[k]; !ok {
			if _, ok2 := todo[k]; !ok2 {
				todo[k] = c
			}
		}
	}
	rt.mu.Unlock()
	keys := make([]string, 0, len(todo))
	for k := range todo {
		keys = append(keys, k)
	}
	sort.Strings(keys)
	var wg sync.WaitGroup
	var firstErr error
	var emu sync.Mutex
	for _, k := range keys {
		k := k
		c := todo[k]
		wg.Add(1)
		go func() {
			defer wg.Done()
			out := e.run(soloSegment(c), false)
			ref := &Ref{}
			switch {
			case out.Res == nil && out.Crash != "":
				// dies alone as well (panic on a library goroutine): no reference
				ref.Unavailable = "crashes alone: " + firstLine(out.Crash)
			case out.Res == nil:
				emu.Lock()
				if firstErr == nil {
					firstErr = herr("reference run produced no result (exit %d, timed out %v): %s", out.ExitCode, out.TimedOut, tail(out.Stderr, 2000))
				}
				emu.Unlock()
				return
			case out.Res.Verdict == "internal":
				emu.Lock()
				if firstErr == nil {
					firstErr = herr("reference run: simulator internal error: %s", out.Res.Detail)
				}
				emu.Unlock()
				return
			case out.Res.Verdict != "done":
				ref.Unavailable = "does not finish alone: " + out.Res.Verdict
			default:
				cr := out.Res.Results[0][0][0]
				ref.Class = cr.Class
				ref.Digest = cr.Digest
				ref.W, ref.H = cr.W, cr.H
				ref.Steps = out.Res.Steps
				for _, l := range out.Res.Leaks {
					if l.Module {
						ref.LeaksAlone++
					}
				}
			}
			rt.mu.Lock()
			rt.m[k] = ref
			rt.runs++
			rt.mu.Unlock()
		}()
	}
	wg.Wait()
	return firstErr
}

func (rt *RefTable) get(c *Call) *Ref {
	rt.mu.Lock()
	defer rt.mu.Unlock()
	return rt.m[refKey(c)]
}

func firstLine(s string) string {
	if i := strings.IndexByte(s, '\n'); i >= 0 {
		return s[:i]
	}
	return s
}

func tail(s string, n int) string {
	if len(s) > n {
		return s[len(s)-n:]
	}
	return s
}

func head(s string, n int) string {
	if len(s) > n {
		return s[:n] + "…"
	}
	return s
}

// panickingStack cuts a crash dump down to the goroutine that panicked (the
// first goroutine block): with GOTRACEBACK=all every other goroutine follows,
// and those must not be used to attribute the crash.
func panickingStack(crash string) string {
	i := strings.Index(crash, "\ngoroutine ")
	if i < 0 {
		return crash
	}
	rest := crash[i+1:]
	if j := strings.Index(rest, "\n\n"); j >= 0 {
		return crash[:i+1] + rest[:j]
	}
	return crash
}

func moduleInText(mod, text string) bool {
	for _, ln := range strings.Split(text, "\n") {
		i := strings.Index(ln, mod)
		if i < 0 {
			continue
		}
		rest := ln[i+len(mod):]
		if strings.HasPrefix(rest, "/zz_sim") {
			continue
		}
		if strings.HasPrefix(rest, "/") || strings.HasPrefix(rest, ".") {
			return true
		}
	}
	return false
}

// judge evaluates every oracle on the outcome of one segment. It returns
// violations, or a harness error when the outcome is the machinery's own
// trouble.
func judge(b *Build, prop string, segIdx int, seg *Segment, out *RunOut, refs *RefTable) ([]Violation, error) {
	var vs []Violation
	if out.Res == nil {
		if strings.Contains(firstLine(out.Crash), "synctest") {
			// a goroutine outside the bubble (started from init(), a finalizer) reached a hook: the runtime
			// refuses that with a fatal error. This simulator cannot schedule such a goroutine.
			return nil, herr("a goroutine outside the simulation reached a synchronisation hook (%s); segment saved as %s", firstLine(out.Crash), saveTrouble(seg))
		}
		if out.Crash != "" && moduleInText(b.Module, panickingStack(out.Crash)) && !strings.Contains(panickingStack(out.Crash), "/zz_simnode.") {
			vs = append(vs, Violation{Class: "goroutine-panic", Detail: "the process died: " + firstLine(out.Crash), Seg: segIdx, Extra: head(out.Crash, 6000)})
			return vs, nil
		}
		return nil, herr("node produced no result (exit %d, timed out %v); segment saved as %s: %s", out.ExitCode, out.TimedOut, saveTrouble(seg), tail(out.Stderr, 3000))
	}
	r := out.Res
	switch r.Verdict {
	case "internal":
		return nil, herr("simulator internal error: %s\n%s", r.Detail, head(r.Dump, 3000))
	case "hang":
		saveTrouble(seg)
		return nil, herr("node made no scheduler step for a long time (spinning or non-durably blocked goroutine): %s\n%s", r.Detail, head(r.Dump, 6000))
	case "deadlock", "deadlock-after-return":
		vs = append(vs, Violation{Class: "deadlock", Detail: fmt.Sprintf("%s after %d steps: every goroutine is blocked and at least one call has not returned", r.Verdict, r.Steps), Seg: segIdx, Extra: head(r.Dump, 12000)})
	case "stepcap":
		vs = append(vs, Violation{Class: "livelock", Detail: fmt.Sprintf("step cap reached after %d steps without all calls returning", r.Steps), Seg: segIdx})
	}
	if r.Verdict != "done" {
		// the run was cut short: per-call results and race accounting of a torn run are not judged
		return vs, nil
	}
	if r.Verdict == "done" {
		for _, l := range r.Leaks {
			if l.Module {
				vs = append(vs, Violation{Class: "goroutine-left-running", What: leakWhere(b.Module, l.Stack), Detail: "a goroutine started by the library is still alive after every call has returned: " + l.Header, Seg: segIdx, Extra: head(l.Stack, 4000)})
			}
		}
	}
	if out.Races() > 0 {
		if libraryRace(b.Module, out.RaceLog) {
			vs = append(vs, Violation{Class: "data-race", What: raceWhere(b.Module, out.RaceLog), Detail: fmt.Sprintf("%d data race report(s) from the Go race detector", out.Races()), Seg: segIdx, Extra: head(out.RaceLog, 8000)})
		} else {
			return nil, herr("race report without a frame of the module under test (harness race?):\n%s", head(out.RaceLog, 4000))
		}
	}
	// per call
	for pi, ph := range r.Results {
		if pi >= len(seg.Phases) {
			break
		}
		for wi, prog := range ph {
			for ci, cr := range prog {
				c := &seg.Phases[pi][wi][ci]
				at := Violation{Fn: c.Fn, Seg: segIdx, Phase: pi, Worker: wi, Call: ci}
				if cr.Class == "notrun" {
					continue
				}
				if c.Fn == "bitlist" {
					switch cr.Class {
					case "diverged":
						v := at
						v.Class = "model-divergence"
						v.Detail = cr.Err
						vs = append(vs, v)
					case "panic":
						v := at
						v.Class = "panic"
						v.Detail = "BitList history panicked: " + cr.Panic
						v.Extra = head(cr.Stack, 3000)
						vs = append(vs, v)
					}
					continue
				}
				ref := refs.get(c)
				if ref == nil {
					return nil, herr("no reference for call %s", callKey(c))
				}
				if ref.Unavailable != "" {
					continue
				}
				if cr.Class != ref.Class || cr.Digest != ref.Digest {
					v := at
					if cr.Class == "panic" {
						v.Class = "panic"
						v.Detail = fmt.Sprintf("call panicked (%s) although alone in a fresh process it gives %s", cr.Panic, ref.Class)
						v.Extra = head(cr.Stack, 3000)
					} else {
						v.Class = "result-differs"
						v.Detail = fmt.Sprintf("call gave %s/%s here but %s/%s alone in a fresh process", cr.Class, short(cr.Digest), ref.Class, short(ref.Digest))
					}
					vs = append(vs, v)
				}
				if cr.ArgMod {
					v := at
					v.Class = "input-modified"
					v.Detail = "the call changed the caller's argument buffer (or wrote into its spare capacity)"
					if c.Fn == "scale" {
						v.Detail = "Scale changed the barcode that was passed to it: " + cr.Err
					}
					vs = append(vs, v)
				}
				if cr.LaterWhat != "" {
					v := at
					v.Class = "result-changed-later"
					v.What = cr.LaterWhat
					v.Detail = "a barcode that had already been returned changed after later calls were made: " + cr.LaterWhat
					vs = append(vs, v)
				}
				if cr.MutWhat != "" {
					v := at
					v.Class = "aliasing"
					v.What = strings.TrimSuffix(cr.MutWhat, " (later)")
					v.Detail = "after the caller overwrote the argument buffer the returned value changed: " + cr.MutWhat
					vs = append(vs, v)
				}
			}
		}
	}
	for i, cr := range r.SharedRes {
		if i >= len(seg.Shared) {
			break
		}
		ref := refs.get(&seg.Shared[i])
		if ref == nil || ref.Unavailable != "" {
			continue
		}
		if cr.Class != ref.Class || cr.Digest != ref.Digest {
			vs = append(vs, Violation{Class: "result-differs", Fn: seg.Shared[i].Fn, Seg: segIdx, Phase: -1, Call: i,
				Detail: fmt.Sprintf("shared barcode gave %s/%s but %s/%s alone", cr.Class, short(cr.Digest), ref.Class, short(ref.Digest))})
		}
	}
	return vs, nil
}

// saveTrouble keeps the segment that gave the harness trouble, for debugging.
func saveTrouble(seg *Segment) string {
	b, _ := json.Marshal(seg)
	p := filepath.Join(replayDir(), fmt.Sprintf("harness-trouble-%d.json", seg.Seed%1000000))
	os.WriteFile(p, b, 0o644)
	return p
}

func short(d string) string {
	if len(d) > 10 {
		return d[:10]
	}
	if d == "" {
		return "-"
	}
	return d
}

func (o *RunOut) Races() int {
	if o.Res != nil && o.Res.Races > 0 {
		return o.Res.Races
	}
	return strings.Count(o.RaceLog, "WARNING: DATA RACE")
}

// libraryRace: at least one report whose two conflicting accesses both happen in
// code of the module under test (top frame of each access stack), not in the
// hook runtime or the node.
func libraryRace(mod, log string) bool {
	for _, rep := range strings.Split(log, "WARNING: DATA RACE") {
		tops := 0
		inLib := 0
		lines := strings.Split(rep, "\n")
		for i, ln := range lines {
			t := strings.TrimSpace(ln)
			if (strings.HasPrefix(t, "Read at ") || strings.HasPrefix(t, "Write at ") || strings.HasPrefix(t, "Previous read at ") || strings.HasPrefix(t, "Previous write at ") ||
				strings.HasPrefix(t, "Atomic read at ") || strings.HasPrefix(t, "Atomic write at ") || strings.HasPrefix(t, "Previous atomic ")) && i+1 < len(lines) {
				tops++
				top := strings.TrimSpace(lines[i+1])
				// skip runtime / std frames at the very top (memmove, mapaccess, ...): first frame that belongs to the module or the harness
				for j := i + 1; j < len(lines) && j < i+40; j += 2 {
					f := strings.TrimSpace(lines[j])
					if f == "" {
						break
					}
					if strings.HasPrefix(f, mod) {
						top = f
						break
					}
				}
				if strings.HasPrefix(top, mod) && !strings.HasPrefix(top, mod+"/zz_sim") {
					inLib++
				}
			}
		}
		if tops >= 2 && inLib >= 2 {
			return true
		}
	}
	return false
}

// leakWhere names the first module function on a leaked goroutine's stack.
func leakWhere(mod, stack string) string {
	for _, ln := range strings.Split(stack, "\n") {
		if strings.HasPrefix(ln, mod) && !strings.HasPrefix(ln, mod+"/zz_sim") {
			f := ln
			if i := strings.LastIndexByte(f, '('); i > 0 {
				f = f[:i]
			}
			return strings.TrimPrefix(f, mod+"/")
		}
	}
	return ""
}

func raceWhere(mod, log string) string {
	for _, ln := range strings.Split(log, "\n") {
		ln = strings.TrimSpace(ln)
		if strings.HasPrefix(ln, mod) && !strings.HasPrefix(ln, mod+"/zz_sim") {
			f := ln
			if i := strings.LastIndexByte(f, '('); i > 0 {
				f = f[:i]
			}
			return strings.TrimPrefix(f, mod+"/")
		}
	}
	return ""
}

// ---- known findings ----------------------------------------------------------

type Finding struct {
	Property string `json:"property"`
	Status   string `json:"status"` // open | fixed
	Class    string `json:"class"`
	Fn       string `json:"fn,omitempty"`
	What     string `json:"what,omitempty"`
	Summary  string `json:"summary"`
	Commit   string `json:"commit,omitempty"`
}

type FindingsFile struct {
	Findings []Finding `json:"findings"`
	Lines    []string  `json:"lines,omitempty"`
}

func loadFindings() (*FindingsFile, error) {
	p := filepath.Join(verifRoot(), "known_findings.json")
	b, err := os.ReadFile(p)
	if err != nil {
		if os.IsNotExist(err) {
			return &FindingsFile{}, nil
		}
		return nil, err
	}
	var f FindingsFile
	if err := json.Unmarshal(b, &f); err != nil {
		return nil, herr("known_findings.json: %v", err)
	}
	return &f, nil
}

// match returns the open finding that lists exactly this violation, if any.
func (f *FindingsFile) match(prop string, v Violation) *Finding {
	for i := range f.Findings {
		k := &f.Findings[i]
		if k.Status != "open" || k.Property != prop {
			continue
		}
		if k.Class == v.Class && k.Fn == v.Fn && (k.What == "" || k.What == v.What) {
			return k
		}
	}
	return nil
}
