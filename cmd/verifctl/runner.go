package main

import (
	"bytes"
	"context"
	"encoding/json"
	"fmt"
	"os"
	"os/exec"
	"path/filepath"
	"strings"
	"sync/atomic"
	"time"

	. "verif/simtypes"
)

type RunOut struct {
	Res      *Result
	Stderr   string
	ExitCode int
	TimedOut bool
	Wall     time.Duration
	RaceLog  string
	Crash    string // panic text when the process died
}

var runSeq atomic.Int64

type RunOpts struct {
	Race       bool
	Timeout    time.Duration
	GOMAXPROCS int
	HangS      int
}

// RunSegment executes one segment in a fresh OS process.
func (b *Build) RunSegment(seg *Segment, o RunOpts) *RunOut {
	n := runSeq.Add(1)
	dir := filepath.Join(b.Scratch, "runs", fmt.Sprintf("r%d", n))
	os.MkdirAll(dir, 0o755)
	defer os.RemoveAll(dir)
	segPath := filepath.Join(dir, "seg.json")
	outPath := filepath.Join(dir, "out.json")
	sb, _ := json.Marshal(seg)
	os.WriteFile(segPath, sb, 0o644)

	bin := b.Plain
	if o.Race {
		bin = b.Race
	}
	if o.Timeout == 0 {
		o.Timeout = 10 * time.Minute
	}
	if o.HangS == 0 {
		o.HangS = 60
	}
	ctx, cancel := context.WithTimeout(context.Background(), o.Timeout)
	defer cancel()
	cmd := exec.CommandContext(ctx, bin, "-test.run", "^TestNode$", "-test.timeout", "0")
	cmd.Dir = dir
	env := append(os.Environ(),
		"SIMNODE_SEGMENT="+segPath,
		"SIMNODE_OUT="+outPath,
		fmt.Sprintf("SIMNODE_HANG_S=%d", o.HangS),
		"GORACE=halt_on_error=0 exitcode=0 log_path="+filepath.Join(dir, "race"),
		"GOTRACEBACK=all",
	)
	if o.GOMAXPROCS == 0 && seg.Procs > 0 {
		o.GOMAXPROCS = seg.Procs
	}
	if o.GOMAXPROCS > 0 {
		env = append(env, fmt.Sprintf("GOMAXPROCS=%d", o.GOMAXPROCS))
	} else {
		env = append(env, "GOMAXPROCS=2")
	}
	cmd.Env = env
	var stderr bytes.Buffer
	cmd.Stdout = &stderr
	cmd.Stderr = &stderr
	t0 := time.Now()
	err := cmd.Run()
	out := &RunOut{Wall: time.Since(t0)}
	out.Stderr = stderr.String()
	if len(out.Stderr) > 1<<18 {
		out.Stderr = out.Stderr[:1<<18]
	}
	if ctx.Err() != nil {
		out.TimedOut = true
	}
	if err != nil {
		if ee, ok := err.(*exec.ExitError); ok {
			out.ExitCode = ee.ExitCode()
		} else {
			out.ExitCode = -1
		}
	}
	if rb, err := os.ReadFile(outPath); err == nil {
		var r Result
		if json.Unmarshal(rb, &r) == nil {
			out.Res = &r
		}
	}
	if o.Race {
		m, _ := filepath.Glob(filepath.Join(dir, "race.*"))
		var sb strings.Builder
		for _, f := range m {
			if c, err := os.ReadFile(f); err == nil {
				sb.Write(c)
			}
		}
		out.RaceLog = sb.String()
		if len(out.RaceLog) > 1<<17 {
			out.RaceLog = out.RaceLog[:1<<17]
		}
	}
	if out.Res == nil && !out.TimedOut {
		if i := strings.Index(out.Stderr, "panic: "); i >= 0 {
			out.Crash = out.Stderr[i:]
		} else if i := strings.Index(out.Stderr, "fatal error: "); i >= 0 {
			out.Crash = out.Stderr[i:]
		}
		if len(out.Crash) > 1<<15 {
			out.Crash = out.Crash[:1<<15]
		}
	}
	return out
}
