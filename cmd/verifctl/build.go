package main

import (
	"bytes"
	"encoding/json"
	"fmt"
	"os"
	"os/exec"
	"path/filepath"
	"strconv"
	"strings"
	"time"
)

// Build is an instrumented, compiled snapshot of /repo's working tree.
type Build struct {
	Scratch   string // scratch root (removed by Close)
	RepoCopy  string
	Plain     string // node binary
	Race      string // node binary built with -race ("" if not built)
	Module    string
	Report    InstrReport
	BuildSecs float64
}

type InstrReport struct {
	Module         string         `json:"module"`
	Packages       []string       `json:"packages"`
	Counts         map[string]int `json:"counts"`
	Uninstrumented []string       `json:"uninstrumented_sync_sites"`
	FilesRewritten []string       `json:"files_rewritten"`
	Sites          []struct {
		ID    int    `json:"id"`
		Label string `json:"label"`
		What  string `json:"what"`
	} `json:"sites"`
}

func verifRoot() string {
	if v := os.Getenv("VERIF_ROOT"); v != "" {
		return v
	}
	exe, err := os.Executable()
	if err == nil {
		d := filepath.Dir(filepath.Dir(exe)) // bin/verifctl -> /verif
		if _, err := os.Stat(filepath.Join(d, "simrt")); err == nil {
			return d
		}
	}
	return "/verif"
}

func repoRoot() string {
	if v := os.Getenv("VERIF_REPO"); v != "" {
		return v
	}
	return "/repo"
}

func goEnv() []string {
	env := os.Environ()
	env = append(env, "GOFLAGS=-mod=mod", "GOPROXY=off", "GOSUMDB=off", "GOTOOLCHAIN=local", "CGO_ENABLED=1")
	return env
}

const goBin = "go1.26.8"

// harnessErr marks trouble of the machinery itself (exit 2), never a verdict.
type harnessErr struct{ msg string }

func (e harnessErr) Error() string { return e.msg }

func herr(format string, a ...any) error { return harnessErr{fmt.Sprintf(format, a...)} }

func runCmd(dir string, env []string, name string, args ...string) (string, error) {
	cmd := exec.Command(name, args...)
	cmd.Dir = dir
	cmd.Env = env
	var out bytes.Buffer
	cmd.Stdout = &out
	cmd.Stderr = &out
	err := cmd.Run()
	return out.String(), err
}

// NewBuild instruments repo into a fresh scratch directory and compiles the node.
func NewBuild(repo string, wantRace bool) (*Build, error) {
	return NewBuildTags(repo, wantRace, "simnode")
}

// NewBuildTags is NewBuild with an explicit build-tag list for the node.
func NewBuildTags(repo string, wantRace bool, tags string) (*Build, error) {
	t0 := time.Now()
	base := os.Getenv("VERIF_SCRATCH_BASE")
	if base == "" {
		base = os.TempDir()
	}
	sweepStaleScratch(base)
	scratch, err := os.MkdirTemp(base, "verif-sim.")
	if err != nil {
		return nil, herr("scratch: %v", err)
	}
	os.WriteFile(filepath.Join(scratch, "owner.pid"), []byte(strconv.Itoa(os.Getpid())), 0o644)
	b := &Build{Scratch: scratch, RepoCopy: filepath.Join(scratch, "repo")}
	ok := false
	defer func() {
		if !ok {
			b.Close()
		}
	}()
	root := verifRoot()
	instr := filepath.Join(root, "bin", "instrument")
	rep := filepath.Join(scratch, "instrument.json")
	env := goEnv()
	ienv := append(append([]string{}, env...), "CGO_ENABLED=0")
	if out, err := runCmd(root, ienv, instr, "-src", repo, "-dst", b.RepoCopy, "-simrt", filepath.Join(root, "simrt"), "-report", rep); err != nil {
		return nil, herr("instrument failed: %v\n%s", err, out)
	}
	rb, err := os.ReadFile(rep)
	if err != nil {
		return nil, herr("instrument report: %v", err)
	}
	if err := json.Unmarshal(rb, &b.Report); err != nil {
		return nil, herr("instrument report: %v", err)
	}
	b.Module = b.Report.Module

	// node sources
	nodeDir := filepath.Join(b.RepoCopy, "zz_simnode")
	if err := os.MkdirAll(nodeDir, 0o755); err != nil {
		return nil, herr("%v", err)
	}
	ents, err := os.ReadDir(filepath.Join(root, "node"))
	if err != nil {
		return nil, herr("%v", err)
	}
	for _, e := range ents {
		if !strings.HasSuffix(e.Name(), ".go") {
			continue
		}
		src, err := os.ReadFile(filepath.Join(root, "node", e.Name()))
		if err != nil {
			return nil, herr("%v", err)
		}
		s := strings.ReplaceAll(string(src), "MODULEPATH", b.Module)
		if err := os.WriteFile(filepath.Join(nodeDir, e.Name()), []byte(s), 0o644); err != nil {
			return nil, herr("%v", err)
		}
	}
	ts, err := os.ReadFile(filepath.Join(root, "simtypes", "types.go"))
	if err != nil {
		return nil, herr("%v", err)
	}
	tsrc := "//go:build simnode\n\n" + strings.Replace(string(ts), "package simtypes", "package zz_simnode", 1)
	if err := os.WriteFile(filepath.Join(nodeDir, "types_test.go"), []byte(tsrc), 0o644); err != nil {
		return nil, herr("%v", err)
	}

	// the library itself must build, otherwise nothing below means anything
	if out, err := runCmd(b.RepoCopy, env, goBin, "build", "./..."); err != nil {
		return nil, herr("instrumented copy does not build: %v\n%s", err, out)
	}
	b.Plain = filepath.Join(scratch, "simnode.test")
	if out, err := runCmd(b.RepoCopy, env, goBin, "test", "-c", "-vet=off", "-tags", tags, "-o", b.Plain, "./zz_simnode"); err != nil {
		return nil, herr("node build failed: %v\n%s", err, out)
	}
	if wantRace {
		b.Race = filepath.Join(scratch, "simnode.race.test")
		if out, err := runCmd(b.RepoCopy, env, goBin, "test", "-c", "-race", "-vet=off", "-tags", tags, "-o", b.Race, "./zz_simnode"); err != nil {
			return nil, herr("race node build failed: %v\n%s", err, out)
		}
	}
	b.BuildSecs = time.Since(t0).Seconds()
	ok = true
	return b, nil
}

// sweepStaleScratch removes scratch directories left behind by a coordinator
// that was killed (their owner process no longer exists).
func sweepStaleScratch(base string) {
	ents, err := os.ReadDir(base)
	if err != nil {
		return
	}
	for _, e := range ents {
		if !e.IsDir() || !strings.HasPrefix(e.Name(), "verif-sim.") {
			continue
		}
		dir := filepath.Join(base, e.Name())
		pb, err := os.ReadFile(filepath.Join(dir, "owner.pid"))
		if err != nil {
			if st, serr := os.Stat(dir); serr == nil && time.Since(st.ModTime()) > 12*time.Hour {
				os.RemoveAll(dir)
			}
			continue
		}
		pid, _ := strconv.Atoi(strings.TrimSpace(string(pb)))
		if pid > 0 {
			if _, err := os.Stat("/proc/" + strconv.Itoa(pid)); err == nil {
				continue // owner alive
			}
		}
		os.RemoveAll(dir)
	}
}

func (b *Build) Close() {
	if b != nil && b.Scratch != "" {
		os.RemoveAll(b.Scratch)
	}
}
