package main

import (
	"encoding/json"
	"fmt"
	"os"
	"path/filepath"
	"runtime"
	"sort"
	"strconv"
	"strings"
	"sync"
	"time"

	. "verif/simtypes"
)

type tierCfg struct {
	pool           int
	scenarios      int
	raceFrac       float64
	profile        Profile
	maxOps         int // C15: calls per history; C18: ops per bit history
	maxW           []int
	maxBits        int
	budget         time.Duration
	shrinkEvals    int
	boundaryGroups int
	marathons      int
	marathonLen    int
}

func cfgFor(prop, tier string) tierCfg {
	quick := tier != "thorough"
	switch prop {
	case "C15":
		if quick {
			return tierCfg{pool: 420, scenarios: 520, profile: Profile{MaxLen: 330, MaxRSEcc: 68, ScaleMax: 160}, maxOps: 50, budget: 4 * time.Minute, shrinkEvals: 120, boundaryGroups: 10, marathons: 2, marathonLen: 700}
		}
		return tierCfg{pool: 5000, scenarios: 9000, profile: Profile{MaxLen: 2960, MaxRSEcc: 200, ScaleMax: 400, HeavyTail: true}, maxOps: 250, budget: 50 * time.Minute, shrinkEvals: 300, boundaryGroups: 40, marathons: 30, marathonLen: 6000}
	case "C16":
		if quick {
			return tierCfg{pool: 360, scenarios: 420, raceFrac: 0.3, profile: Profile{MaxLen: 110, MaxRSEcc: 68, ScaleMax: 120}, maxOps: 4, maxW: []int{2, 2, 3, 4, 4, 8, 16, 32}, budget: 4 * time.Minute, shrinkEvals: 120, boundaryGroups: 10}
		}
		return tierCfg{pool: 3000, scenarios: 10000, raceFrac: 0.3, profile: Profile{MaxLen: 700, MaxRSEcc: 200, ScaleMax: 250, HeavyTail: true}, maxOps: 6, maxW: []int{2, 2, 3, 4, 8, 8, 16, 32, 64, 96, 128, 192, 256}, budget: 60 * time.Minute, shrinkEvals: 300, boundaryGroups: 40}
	default: // C18
		if quick {
			return tierCfg{scenarios: 300, raceFrac: 0.2, maxOps: 80, maxW: []int{1, 1, 1, 2, 3}, maxBits: 120_000, budget: 3 * time.Minute, shrinkEvals: 150}
		}
		return tierCfg{scenarios: 6000, raceFrac: 0.2, maxOps: 700, maxW: []int{1, 1, 2, 3, 4}, maxBits: 400_000, budget: 40 * time.Minute, shrinkEvals: 400}
	}
}

// ---- C15 ----------------------------------------------------------------------

func genPool(r *rng, n int, p Profile, rsShared int) []Call {
	seen := map[string]bool{}
	var pool []Call
	for len(pool) < n {
		c := genCall(r, p, 0)
		k := callKey(&c)
		if seen[k] {
			continue
		}
		seen[k] = true
		pool = append(pool, c)
	}
	return pool
}

// addVariants appends, for a subset of the pool, a sibling call that differs
// only by a corrupted / truncated / extended content, so that histories can
// place a failing call right before a successful call of the same encoder
// (state left behind by an error path).
func addVariants(r *rng, pool []Call) ([]Call, map[int][]int, map[string][]int) {
	variants := map[int][]int{}
	n := len(pool)
	seen := map[string]bool{}
	for i := range pool {
		seen[callKey(&pool[i])] = true
	}
	for i := 0; i < n; i++ {
		c := pool[i]
		if c.Fn == "rs" || c.Fn == "scale" || len(c.B) == 0 || !r.chance(0.45) {
			continue
		}
		v := c
		v.B = append([]byte(nil), c.B...)
		switch r.intn(5) {
		case 0, 1, 2:
			pos := r.intn(len(v.B))
			if r.chance(0.3) {
				pos = len(v.B) - 1
			}
			v.B[pos] = []byte{'x', 0xff, 0x00, '~', 'q'}[r.intn(5)]
		case 3:
			v.B = v.B[:len(v.B)/2]
		default:
			v.B = append(v.B, v.B...)
		}
		k := callKey(&v)
		if seen[k] {
			continue
		}
		seen[k] = true
		variants[i] = append(variants[i], len(pool))
		pool = append(pool, v)
	}
	byFn := map[string][]int{}
	for i := range pool {
		byFn[pool[i].Fn] = append(byFn[pool[i].Fn], i)
	}
	return pool, variants, byFn
}

func withHistoryAttrs(r *rng, c Call, rsShared int, mutP float64) Call {
	if c.Fn == "rs" && rsShared > 0 && r.chance(0.85) {
		c.H = r.rangeIn(1, rsShared)
	}
	if (c.Fn == "aztec" || c.Fn == "rs") && r.chance(mutP) {
		c.Mut = true
	}
	return c
}

func genC15(seed uint64, cfg tierCfg) ([]*Scenario, []Call) {
	pr := &rng{s: mix(seed, 15, 1)}
	pool := genPool(pr, cfg.pool, cfg.profile, 0)
	pool, variants, byFn := addVariants(pr, pool)
	// index pool by kind for biased histories
	var rsIdx, statefulIdx []int
	for i := range pool {
		switch pool[i].Fn {
		case "rs":
			rsIdx = append(rsIdx, i)
			statefulIdx = append(statefulIdx, i)
		case "qr", "dm", "aztec", "code39", "code93":
			statefulIdx = append(statefulIdx, i)
		}
	}
	// per-family sub-pools for the drills: pairs (call, corrupted sibling); bounded so that the
	// number of distinct calls (= fresh-process references) does not grow with the number of histories
	famPool := map[string][][2]Call{}
	perFam := 40 + cfg.pool/14
	dp := cfg.profile
	if dp.MaxLen > 200 {
		dp.MaxLen = 200
	}
	for _, fam := range families {
		for i := 0; i < perFam; i++ {
			c := genFamily(pr, dp, fam)
			famPool[fam] = append(famPool[fam], [2]Call{c, corrupt(pr, c)})
		}
	}
	var scs []*Scenario
	for id := 0; id < cfg.scenarios; id++ {
		s := mix(seed, 15, 2, uint64(id))
		r := &rng{s: s}
		sc := &Scenario{ID: id, Seed: s, Property: "C15"}
		nseg := 1
		switch x := r.intn(10); {
		case x < 4:
			nseg = 1
		case x < 7:
			nseg = 2
		case x < 9:
			nseg = 3
		default:
			nseg = 4
		}
		// focus set: calls repeated at different positions and across restarts
		focus := make([]int, r.rangeIn(2, 8))
		for i := range focus {
			if r.chance(0.7) && len(statefulIdx) > 0 {
				focus[i] = statefulIdx[r.intn(len(statefulIdx))]
			} else {
				focus[i] = r.intn(len(pool))
			}
		}
		// neighbour drill: one encoder, the same parameters, contents that are prefixes of one master
		// string with lengths n-3 .. n+4 — consecutive calls that differ by one or two characters
		// (fast paths keyed on "same as last time", grids and modes carried over from the previous call)
		if r.chance(0.12) {
			fam := families[r.intn(len(families))]
			np := cfg.profile
			if np.MaxLen > 300 {
				np.MaxLen = 300
			}
			base := genFamily(r, np, fam)
			for len(base.B) < 8 {
				base.B = append(base.B, base.B...)
				if len(base.B) == 0 {
					base.B = []byte("12345678")
				}
			}
			master := append(append([]byte(nil), base.B...), base.B...)
			n0 := len(base.B)
			var group []Call
			for d := -3; d <= 4; d++ {
				if n0+d < 1 || n0+d > len(master) {
					continue
				}
				c := base
				c.B = append([]byte(nil), master[:n0+d]...)
				group = append(group, c)
			}
			for si := 0; si < nseg; si++ {
				var prog []Call
				for rep := r.rangeIn(1, 3); rep > 0; rep-- {
					perm := append([]Call(nil), group...)
					for i := len(perm) - 1; i > 0; i-- {
						j := r.intn(i + 1)
						perm[i], perm[j] = perm[j], perm[i]
					}
					for _, c := range perm {
						prog = append(prog, withHistoryAttrs(r, c, 2, 0.7))
					}
				}
				sc.Segments = append(sc.Segments, Segment{Kind: "calls", Seed: r.next(), Policy: genPolicy(r, 20000), MapMode: r.intn(5), Phases: [][][]Call{{prog}}})
			}
			scs = append(scs, sc)
			continue
		}
		// a quarter of the histories drill one encoder family: valid and corrupted
		// siblings back to back, so that whatever an error path leaves behind meets
		// the next successful call of the same package
		drill := ""
		if r.chance(0.25) {
			drill = families[r.intn(len(families))]
		}
		for si := 0; si < nseg; si++ {
			if drill != "" {
				var prog []Call
				for n := r.rangeIn(4, 24); n > 0; n-- {
					pair := famPool[drill][r.intn(len(famPool[drill]))]
					c, bad := pair[0], pair[1]
					switch r.intn(4) {
					case 0:
						prog = append(prog, withHistoryAttrs(r, bad, 2, 0.7), withHistoryAttrs(r, c, 2, 0.7))
					case 1:
						prog = append(prog, withHistoryAttrs(r, c, 2, 0.7), withHistoryAttrs(r, bad, 2, 0.7))
					default:
						prog = append(prog, withHistoryAttrs(r, c, 2, 0.7))
					}
				}
				seg := Segment{Kind: "calls", Seed: r.next(), Policy: genPolicy(r, 20000), MapMode: []int{0, 1, 2, 3, 4, 4, 3}[r.intn(7)], Phases: [][][]Call{{prog}}}
				sc.Segments = append(sc.Segments, seg)
				continue
			}
			n := r.rangeIn(3, cfg.maxOps)
			if r.chance(0.5) {
				n = r.rangeIn(3, 12)
			}
			var idxs []int
			for i := 0; i < n; i++ {
				switch x := r.intn(10); {
				case x < 4:
					idxs = append(idxs, focus[r.intn(len(focus))])
				case x < 6 && len(rsIdx) > 0:
					idxs = append(idxs, rsIdx[r.intn(len(rsIdx))])
				default:
					idxs = append(idxs, r.intn(len(pool)))
				}
			}
			// sometimes order RS calls by degree (ascending or descending growth of the cache)
			if r.chance(0.3) {
				var pos []int
				for i, ix := range idxs {
					if pool[ix].Fn == "rs" {
						pos = append(pos, i)
					}
				}
				vals := make([]int, len(pos))
				for i, p := range pos {
					vals[i] = idxs[p]
				}
				desc := r.chance(0.5)
				sort.SliceStable(vals, func(a, b int) bool {
					if desc {
						return pool[vals[a]].I1 > pool[vals[b]].I1
					}
					return pool[vals[a]].I1 < pool[vals[b]].I1
				})
				for i, p := range pos {
					idxs[p] = vals[i]
				}
			}
			var prog []Call
			for _, ix := range idxs {
				if vs := variants[ix]; len(vs) > 0 && r.chance(0.3) {
					// failing sibling first, then a successful call of the same encoder
					prog = append(prog, withHistoryAttrs(r, pool[vs[r.intn(len(vs))]], 2, 0.7))
					if r.chance(0.5) {
						same := byFn[pool[ix].Fn]
						prog = append(prog, withHistoryAttrs(r, pool[same[r.intn(len(same))]], 2, 0.7))
					}
				}
				prog = append(prog, withHistoryAttrs(r, pool[ix], 2, 0.7))
			}
			seg := Segment{Kind: "calls", Seed: r.next(), Policy: genPolicy(r, 20000), MapMode: []int{0, 1, 2, 3, 4, 4, 3}[r.intn(7)], Phases: [][][]Call{{prog}}}
			if r.chance(0.4) {
				// the bubble's clock starts at 2000-01-01; move it past any real "now" that package
				// initialisation may have seen, plus a seeded amount
				seg.ClockNs = int64(40*365*24*time.Hour) + int64(r.next()%uint64(400*24*time.Hour))
				if r.chance(0.6) {
					seg.JumpPct = []int{5, 20, 50}[r.intn(3)]
				}
			}
			sc.Segments = append(sc.Segments, seg)
		}
		scs = append(scs, sc)
	}
	// process-level variation: the reference always runs with GOMAXPROCS=2 and no forced GC
	for _, sc := range scs {
		r := &rng{s: mix(sc.Seed, 4711)}
		for i := range sc.Segments {
			if r.chance(0.3) {
				sc.Segments[i].GCPct = []int{5, 25, 100}[r.intn(3)]
			}
			if r.chance(0.4) {
				sc.Segments[i].Procs = []int{1, 3, 4, 8, 16}[r.intn(5)]
			}
			if r.chance(0.3) {
				sc.Segments[i].MidJumpPPM = []int{200, 2000, 20000}[r.intn(3)]
			}
		}
	}
	// marathons: very long histories of cheap calls over a small set (counters that wrap, free lists and
	// LRUs that only misbehave when full, slices re-sliced a little further on every call)
	for k := 0; k < cfg.marathons+len(families); k++ {
		r := &rng{s: mix(seed, 15, 9, uint64(k))}
		// the first len(families) marathons stay inside one encoder family each (per-package state),
		// the rest mix all of them
		oneFam := ""
		if k < len(families) {
			oneFam = families[k]
		}
		var cheap []Call
		want := r.rangeIn(3, 24)
		for len(cheap) < want {
			fam := oneFam
			if fam == "" {
				fam = families[r.intn(len(families))]
			}
			c := genFamily(r, Profile{MaxLen: 24, MaxRSEcc: 20, ScaleMax: 60}, fam)
			if c.Fn == "aztec" && len(c.B) > 40 {
				continue
			}
			cheap = append(cheap, c)
		}
		n := cfg.marathonLen
		if oneFam != "" {
			n = cfg.marathonLen * 3 / 7
			switch oneFam {
			case "qr", "dm", "aztec", "pdf417":
				// 2D symbols cost thousands of steps each
			default:
				if cfg.marathonLen > 2000 {
					n = 70_000 // 16-bit counters
				}
			}
		} else if k%8 == 7 {
			n *= 12 // the occasional very long one
		}
		var prog []Call
		for i := 0; i < n; i++ {
			prog = append(prog, cheap[r.intn(len(cheap))])
		}
		// a marathon of ONE family half of the time (per-package state)
		sc := &Scenario{ID: 3_000_000 + k, Seed: mix(seed, 15, 10, uint64(k)), Property: "C15", Note: "marathon",
			Segments: []Segment{{Kind: "calls", Seed: r.next(), Policy: Policy{Name: "fifo"}, MapMode: r.intn(5), Phases: [][][]Call{{prog}}}}}
		scs = append(scs, sc)
	}
	return scs, pool
}

// ---- C16 ----------------------------------------------------------------------

func genC16(seed uint64, cfg tierCfg) ([]*Scenario, []Call) {
	pr := &rng{s: mix(seed, 16, 1)}
	pool := genPool(pr, cfg.pool, cfg.profile, 0)
	pool, variants, _ := addVariants(pr, pool)
	var qrdm, scalable []int
	for i := range pool {
		switch pool[i].Fn {
		case "qr", "dm":
			qrdm = append(qrdm, i)
			scalable = append(scalable, i)
		case "rs", "addcs", "scale":
		default:
			scalable = append(scalable, i)
		}
	}
	var scs []*Scenario
	for id := 0; id < cfg.scenarios; id++ {
		s := mix(seed, 16, 2, uint64(id))
		r := &rng{s: s}
		sc := &Scenario{ID: id, Seed: s, Property: "C16"}
		// race-build segments are spread deterministically over the ids
		sc.Race = cfg.raceFrac > 0 && float64(mix(seed, 16, 3, uint64(id))%1000)/1000 < cfg.raceFrac
		w := cfg.maxW[r.intn(len(cfg.maxW))]
		seg := Segment{Kind: "calls", Seed: r.next(), MapMode: 4}
		rsShared := r.rangeIn(1, 2)
		// shared scale sources
		if r.chance(0.45) && len(scalable) > 0 {
			for i := r.rangeIn(1, 3); i > 0; i-- {
				src := pool[scalable[r.intn(len(scalable))]]
				if r.chance(0.45) {
					// the shared object is itself a scaled barcode: several callers read one Scale result
					src = genScale(r, cfg.profile, src)
					if r.chance(0.6) {
						// sizes that usually succeed: a few multiples of a plausible symbol size
						src.I1 = r.rangeIn(40, cfg.profile.ScaleMax)
						src.I2 = src.I1
						if src.Src.Fn != "qr" && src.Src.Fn != "dm" && src.Src.Fn != "aztec" {
							src.I1 = r.rangeIn(150, 400)
							src.I2 = r.rangeIn(1, 30)
						}
					}
				}
				seg.Shared = append(seg.Shared, src)
			}
		}
		if r.chance(0.35) {
			var warm []Call
			for i := r.rangeIn(1, 4); i > 0; i-- {
				warm = append(warm, withHistoryAttrs(r, pool[r.intn(len(pool))], rsShared, 0))
			}
			seg.Phases = append(seg.Phases, [][]Call{warm})
		}
		var conc [][]Call
		style := r.intn(4) // 0 mixed, 1 all QR/DM first, 2 same call everywhere, 3 mixed
		same := pool[r.intn(len(pool))]
		if len(qrdm) > 0 && r.chance(0.7) {
			same = pool[qrdm[r.intn(len(qrdm))]]
		}
		readers := len(seg.Shared) > 0 && r.chance(0.4) // everybody reads one shared barcode first
		// long programs of cheap calls by a few callers: free lists, pools and counters that only
		// misbehave after many operations, under contention
		long := r.chance(0.05)
		var cheapSet []Call
		if long {
			w = r.rangeIn(2, 4)
			for len(cheapSet) < 12 {
				c := genFamily(r, Profile{MaxLen: 20, MaxRSEcc: 20, ScaleMax: 60}, families[r.intn(len(families))])
				if len(c.B) <= 30 {
					cheapSet = append(cheapSet, c)
				}
			}
		}
		for wi := 0; wi < w; wi++ {
			n := r.rangeIn(1, cfg.maxOps)
			if w >= 16 {
				n = r.rangeIn(1, 2)
			}
			if long {
				n = r.rangeIn(40, 120)
			}
			var prog []Call
			for ci := 0; ci < n; ci++ {
				var c Call
				switch {
				case long:
					c = cheapSet[r.intn(len(cheapSet))]
				case readers && ci == 0:
					src := seg.Shared[0]
					c = Call{Fn: "same", Src: &src, Share: true}
				case style == 2 && ci == 0:
					c = same
				case style == 1 && ci == 0 && len(qrdm) > 0:
					c = pool[qrdm[r.intn(len(qrdm))]]
				case len(seg.Shared) > 0 && r.chance(0.35):
					src := seg.Shared[r.intn(len(seg.Shared))]
					if r.chance(0.4) {
						c = Call{Fn: "same", Src: &src}
					} else {
						c = genScale(r, cfg.profile, src)
					}
					c.Share = true
				default:
					ix := r.intn(len(pool))
					if vs := variants[ix]; len(vs) > 0 && r.chance(0.25) {
						prog = append(prog, pool[vs[r.intn(len(vs))]])
					}
					c = pool[ix]
				}
				prog = append(prog, withHistoryAttrs(r, c, rsShared, 0))
			}
			conc = append(conc, prog)
		}
		seg.Phases = append(seg.Phases, conc)
		if r.chance(0.25) {
			seg.ClockNs = int64(40*365*24*time.Hour) + int64(r.next()%uint64(400*24*time.Hour))
			seg.JumpPct = []int{0, 10, 40}[r.intn(3)]
		}
		if r.chance(0.2) {
			seg.GCPct = []int{5, 25, 100}[r.intn(3)]
		}
		if r.chance(0.3) {
			seg.MidJumpPPM = []int{200, 2000, 20000}[r.intn(3)]
		}
		if r.chance(0.4) {
			seg.Procs = []int{1, 3, 4, 8, 16}[r.intn(5)]
		}
		sc.Segments = []Segment{seg}
		scs = append(scs, sc)
	}
	return scs, pool
}

// stepLimit bounds the estimated size of one concurrent scenario (set per tier).
var stepLimit = 1_500_000

// finishC16 sets the parts of a scenario that need the references: step
// estimate, cap, policy, stalls.
func finishC16(sc *Scenario, refs *RefTable) {
	r := &rng{s: mix(sc.Seed, 77)}
	seg := &sc.Segments[0]
	est := 0
	for _, ph := range seg.Phases {
		for _, prog := range ph {
			for i := range prog {
				if ref := refs.get(&prog[i]); ref != nil {
					est += ref.Steps + 2
				}
			}
		}
	}
	for i := range seg.Shared {
		if ref := refs.get(&seg.Shared[i]); ref != nil {
			est += ref.Steps + 2
		}
	}
	// bound the size of a scenario: many callers making large calls cost millions of steps
	limit := stepLimit
	if est > limit {
		last := len(seg.Phases) - 1
		for est > limit && len(seg.Phases[last]) > 2 {
			w := len(seg.Phases[last]) - 1
			for i := range seg.Phases[last][w] {
				if ref := refs.get(&seg.Phases[last][w][i]); ref != nil {
					est -= ref.Steps + 2
				}
			}
			seg.Phases[last] = seg.Phases[last][:w]
		}
	}
	seg.Policy = genPolicy(r, est+10)
	if sc.Note == "crowd" {
		// everybody advances at about the same pace: the greatest possible number of calls in the same phase
		seg.Policy = Policy{Name: "uniform"}
	}
	seg.StepCap = 50*est + 1_000_000
	if r.chance(0.4) {
		w := len(seg.Phases[len(seg.Phases)-1])
		for i := r.rangeIn(1, 3); i > 0; i-- {
			ln := []int{10, 100, 1000, est + 1, est/4 + 1}[r.intn(5)]
			seg.Stalls = append(seg.Stalls, Stall{G: r.rangeIn(1, w+4*w), From: r.intn(est + 1), Len: ln})
		}
	}
}

// ---- C18 ----------------------------------------------------------------------

func genC18(seed uint64, cfg tierCfg) []*Scenario {
	var scs []*Scenario
	for id := 0; id < cfg.scenarios; id++ {
		scs = append(scs, genC18At(seed, cfg, id))
	}
	return scs
}

// genC18At builds scenario id alone (a pure function of seed and id), so that
// the thorough tier can produce its long histories on demand.
func genC18At(seed uint64, cfg tierCfg, id int) *Scenario {
	hist := id * 1000
	{
		s := mix(seed, 18, 2, uint64(id))
		r := &rng{s: s}
		sc := &Scenario{ID: id, Seed: s, Property: "C18"}
		sc.Race = cfg.raceFrac > 0 && float64(mix(seed, 18, 3, uint64(id))%1000)/1000 < cfg.raceFrac
		w := cfg.maxW[r.intn(len(cfg.maxW))]
		seg := Segment{Kind: "calls", Seed: r.next(), Policy: genPolicy(r, 3000), StepCap: 30_000_000}
		var ph [][]Call
		for wi := 0; wi < w; wi++ {
			var prog []Call
			n := r.rangeIn(6, 22)
			for i := 0; i < n; i++ {
				maxOps := cfg.maxOps
				maxBits := cfg.maxBits
				switch r.intn(4) {
				case 0: // tiny histories: the "three or fewer operations" regime
					maxOps = 4
				case 1:
					maxOps = 20
					maxBits = 5000
				case 2:
					maxBits = 40_000
				case 3:
					if cfg.maxBits >= 400_000 && r.chance(0.08) {
						maxBits = 3_000_000 // beyond 2^16 words
					}
				}
				prog = append(prog, genBitHistory(r, maxOps, maxBits, hist))
				hist++
			}
			ph = append(ph, prog)
		}
		seg.Phases = [][][]Call{ph}
		if r.chance(0.3) {
			seg.MidJumpPPM = []int{500, 5000, 50000}[r.intn(3)]
		}
		if r.chance(0.3) && w > 0 {
			seg.Stalls = append(seg.Stalls, Stall{G: r.rangeIn(1, w+6), From: r.intn(2000), Len: r.rangeIn(10, 3000)})
		}
		sc.Segments = []Segment{seg}
		return sc
	}
}

// ---- driver ---------------------------------------------------------------------

func seedFromEnv() uint64 {
	if v := os.Getenv("VERIF_SEED"); v != "" {
		if n, err := strconv.ParseUint(v, 10, 64); err == nil {
			return n
		}
		if n, err := strconv.ParseInt(v, 10, 64); err == nil {
			return uint64(n)
		}
		var h uint64 = 1469598103934665603
		for i := 0; i < len(v); i++ {
			h = (h ^ uint64(v[i])) * 1099511628211
		}
		return h
	}
	return 20260927
}

func runCheck(prop, tier string) int {
	seed := seedFromEnv()
	fmt.Printf("VERIF_SEED=%d property=%s tier=%s\n", seed, prop, tier)
	cfg := cfgFor(prop, tier)
	if v := os.Getenv("VERIF_SCENARIOS"); v != "" {
		if n, err := strconv.Atoi(v); err == nil {
			cfg.scenarios = n
		}
	}
	if v := os.Getenv("VERIF_BOUNDARY_GROUPS"); v != "" {
		if n, err := strconv.Atoi(v); err == nil {
			cfg.boundaryGroups = n
		}
	}
	if v := os.Getenv("VERIF_BUDGET_S"); v != "" {
		if n, err := strconv.Atoi(v); err == nil {
			cfg.budget = time.Duration(n) * time.Second
		}
	}
	known, err := loadFindings()
	if err != nil {
		fmt.Fprintln(os.Stderr, "verifctl:", err)
		return 2
	}
	wantRace := cfg.raceFrac > 0
	b, err := NewBuild(repoRoot(), wantRace)
	if err != nil {
		fmt.Fprintln(os.Stderr, "verifctl: cannot build:", err)
		return 2
	}
	defer b.Close()
	fmt.Printf("built instrumented copy in %.1fs (%d sync sites, %d files rewritten)\n", b.BuildSecs, len(b.Report.Sites)-1, len(b.Report.FilesRewritten))
	st := newStats()
	par := runtime.NumCPU()
	if v := os.Getenv("VERIF_PAR"); v != "" {
		if n, err := strconv.Atoi(v); err == nil && n > 0 {
			par = n
		}
	}
	ck := &Checker{prop: prop, tier: tier, seed: seed, b: b, ex: newExecutor(b, par, st), refs: newRefTable(), st: st, known: known, start: time.Now(), budget: cfg.budget, shrinkWall: 150 * time.Second}
	if tier == "thorough" {
		ck.shrinkWall = 8 * time.Minute
	}

	var scs []*Scenario
	var rule string
	switch prop {
	case "C15":
		var pool []Call
		scs, pool = genC15(seed, cfg)
		_ = pool
		rule = "one evaluation = one simulated process lifetime (segment) of a single-caller history: a seeded sequence of encodes/Scale/RS calls over all symbologies, with restarts between segments, seeded internal goroutine schedule, seeded map iteration order, clock offset and post-return overwriting of []byte/[]int arguments; every call is compared with the same call run alone in a fresh process. distinct_nontrivial = distinct switch signatures (hash of the sequence of (goroutine role, sync site) at which control changed goroutine) among segments with at least one context switch"
	case "C16":
		scs, _ = genC16(seed, cfg)
		rule = "one evaluation = one cold process in which W caller goroutines (after an optional sequential warm-up) run programs of encodes/Scale/RS calls, every goroutine (callers and the library's own) released one at a time by the seeded scheduler at every channel/lock/go/call boundary, with stall faults; oracles: per-call equality with the fresh-process reference, no panic, no scheduler-level deadlock, step cap, no library goroutine alive at quiescence, no race report (race-build segments). distinct_nontrivial = distinct switch signatures among segments with at least one context switch between different goroutines"
	case "C18":
		// generated on demand in the exploration loop (see below)
		rule = "one evaluation = one process in which 1..4 callers each run a list of seeded BitList operation histories (new/zero, AddBit, AddBits, AddByte, SetBit, GetBit, Len, GetBytes, IterateBytes) against a []bool model, the IterateBytes producer being interleaved with the consumer (which keeps reading) by the seeded scheduler; distinct_nontrivial = distinct switch signatures among segments with at least one producer/consumer context switch"
	default:
		fmt.Fprintln(os.Stderr, "verifctl: no check for property", prop)
		return 2
	}

	// capacity-boundary drills: inputs that exactly fill a symbol and their neighbours, in every
	// mode of the encoder, found by probing the library itself
	if prop == "C15" || prop == "C16" {
		t0 := time.Now()
		maxExp := 7
		if tier == "thorough" {
			maxExp = 11
		}
		groups, err := ck.boundaryGroups(seed, cfg.boundaryGroups, maxExp)
		if err != nil {
			fmt.Fprintln(os.Stderr, "verifctl:", err)
			return 2
		}
		if tier == "thorough" {
			// thorough: additionally every symbol size of QR (4 levels), DataMatrix and Aztec
			every, err := ck.everyBoundary(seed)
			if err != nil {
				fmt.Fprintln(os.Stderr, "verifctl:", err)
				return 2
			}
			groups = append(groups, every...)
		}
		nb := 0
		var drills []*Scenario
		for gi, g := range groups {
			nb += len(g)
			r := &rng{s: mix(seed, 992, uint64(gi))}
			sc := &Scenario{ID: 1_000_000 + gi, Seed: mix(seed, 993, uint64(gi)), Property: prop, Note: "capacity-boundary drill"}
			big := false
			for i := range g {
				if len(g[i].B) > 400 {
					big = true
				}
			}
			if prop == "C15" {
				nseg, nrep := r.rangeIn(1, 2), r.rangeIn(1, 2)
				if big {
					nseg, nrep = 1, 1 // large symbols cost ~10^5 steps per call
				}
				for si := nseg; si > 0; si-- {
					var prog []Call
					for rep := nrep; rep > 0; rep-- {
						perm := append([]Call(nil), g...)
						for i := len(perm) - 1; i > 0; i-- {
							j := r.intn(i + 1)
							perm[i], perm[j] = perm[j], perm[i]
						}
						for _, c := range perm {
							prog = append(prog, withHistoryAttrs(r, c, 2, 0.7))
						}
					}
					sc.Segments = append(sc.Segments, Segment{Kind: "calls", Seed: r.next(), Policy: genPolicy(r, 20000), MapMode: r.intn(5), Phases: [][][]Call{{prog}}})
				}
			} else {
				sc.Race = cfg.raceFrac > 0 && r.chance(cfg.raceFrac)
				w := r.rangeIn(2, 8)
				if big {
					w = r.rangeIn(2, 4)
				}
				var conc [][]Call
				for wi := 0; wi < w; wi++ {
					var prog []Call
					for n := r.rangeIn(1, 3); n > 0; n-- {
						if big && n > 1 {
							continue
						}
						prog = append(prog, g[r.intn(len(g))])
					}
					conc = append(conc, prog)
				}
				sc.Segments = []Segment{{Kind: "calls", Seed: r.next(), MapMode: 4, Phases: [][][]Call{conc}}}
				if tier == "thorough" {
					// herd: 17..40 callers all encoding inputs that fill the same symbol size (bounded pools and
					// semaphores sized "generously" only give way when this many large encodes overlap)
					h := &Scenario{ID: 1_500_000 + gi, Seed: mix(seed, 994, uint64(gi)), Property: prop, Note: "capacity-boundary herd", Race: r.chance(0.2)}
					var herd [][]Call
					for wi := r.rangeIn(17, 40); wi > 0; wi-- {
						herd = append(herd, []Call{g[r.intn(len(g))]})
					}
					h.Segments = []Segment{{Kind: "calls", Seed: r.next(), MapMode: 4, Phases: [][][]Call{herd}}}
					drills = append(drills, h)
					// readers: one scaled instance of such a symbol, observed by many callers at once
					src := g[r.intn(len(g))]
					shared := Call{Fn: "scale", Src: &src, I1: r.rangeIn(200, 420), Fill: 0}
					shared.I2 = shared.I1
					rd := &Scenario{ID: 1_600_000 + gi, Seed: mix(seed, 996, uint64(gi)), Property: prop, Note: "capacity-boundary readers", Race: r.chance(0.3)}
					var readers [][]Call
					for wi := r.rangeIn(4, 16); wi > 0; wi-- {
						readers = append(readers, []Call{{Fn: "same", Src: &shared, Share: true}})
					}
					rd.Segments = []Segment{{Kind: "calls", Seed: r.next(), MapMode: 4, Shared: []Call{shared}, Phases: [][][]Call{readers}}}
					drills = append(drills, rd)
				}
			}
			drills = append(drills, sc)
		}
		if prop == "C16" && tier == "thorough" {
			// crowds: hundreds of callers each making one of the cheapest calls of one family (caps on
			// helper goroutines, slots or buffers that "nobody will ever reach")
			for k, fam := range []string{"qr", "qr", "qr", "dm", "aztec", "pdf417", "code128", "ean"} {
				r := &rng{s: mix(seed, 997, uint64(k))}
				var tiny []Call
				for len(tiny) < 6 {
					c := genFamily(r, Profile{MaxLen: 10, MaxRSEcc: 10, ScaleMax: 40}, fam)
					if len(c.B) <= 12 {
						tiny = append(tiny, c)
					}
				}
				var crowd [][]Call
				n := r.rangeIn(180, 320)
				if k < 2 {
					n = r.rangeIn(600, 800) // two really big QR crowds
				}
				for wi := n; wi > 0; wi-- {
					crowd = append(crowd, []Call{tiny[r.intn(len(tiny))]})
				}
				sc := &Scenario{ID: 1_700_000 + k, Seed: mix(seed, 998, uint64(k)), Property: prop, Note: "crowd", Race: k%4 == 3}
				sc.Segments = []Segment{{Kind: "calls", Seed: r.next(), MapMode: 4, Phases: [][][]Call{crowd}}}
				drills = append(drills, sc)
			}
		}
		scs = append(drills, scs...) // first, so that a time budget never skips them
		st.BoundaryGroups = len(groups)
		st.BoundaryCalls = nb
		fmt.Printf("%d capacity-boundary groups (%d calls) probed in %.1fs\n", len(groups), nb, time.Since(t0).Seconds())
	}

	if v := os.Getenv("VERIF_ONLY_IDS"); v != "" { // debugging: keep only the listed scenario ids
		want := map[string]bool{}
		for _, f := range strings.Split(v, ",") {
			want[strings.TrimSpace(f)] = true
		}
		var keep []*Scenario
		for _, sc := range scs {
			if want[strconv.Itoa(sc.ID)] {
				keep = append(keep, sc)
			}
		}
		scs = keep
	}
	if v := os.Getenv("VERIF_DUMP_SCENARIOS"); v != "" {
		if jb, err := json.Marshal(scs); err == nil {
			os.WriteFile(v, jb, 0o644)
		}
	}
	// references for every call that can occur
	var allCalls []*Call
	for _, sc := range scs {
		allCalls = append(allCalls, ck.callsOf(sc)...)
	}
	for _, c := range allCalls {
		if c.Fn != "bitlist" {
			st.DistinctCalls[refKey(c)] = true
		}
	}
	t0 := time.Now()
	if err := ck.ex.computeRefs(ck.refs, allCalls); err != nil {
		fmt.Fprintln(os.Stderr, "verifctl:", err)
		return 2
	}
	for _, ref := range ck.refs.m {
		if ref.Unavailable != "" {
			st.RefUnavailable++
		}
	}
	fmt.Printf("%d fresh-process references in %.1fs (%d unavailable)\n", ck.refs.runs, time.Since(t0).Seconds(), st.RefUnavailable)
	if prop == "C16" {
		if tier == "thorough" {
			stepLimit = 6_000_000
		}
		for _, sc := range scs {
			finishC16(sc, ck.refs)
		}
	}
	// step caps from the references: 50 x what the calls need alone, plus slack
	for _, sc := range scs {
		for i := range sc.Segments {
			seg := &sc.Segments[i]
			if seg.StepCap != 0 {
				continue
			}
			est := 0
			for pi, ph := range seg.Phases {
				for wi, prog := range ph {
					for k := range prog {
						if ref := ck.refs.get(&prog[k]); ref != nil {
							est += ref.Steps + 2
						}
						// a marathon must stay within what one node process does in a few minutes even on a
						// busy machine (a 72 000-call marathon with 2D symbols once ran into the node timeout)
						if sc.Note == "marathon" && est > 8_000_000 {
							seg.Phases[pi][wi] = prog[:k+1]
							break
						}
					}
				}
			}
			seg.StepCap = 50*est + 1_000_000
		}
	}

	var exhaustiveN int
	var exhaustiveFs []found
	if prop == "C18" {
		ml, rl := 3, 4
		if tier == "thorough" {
			ml, rl = 3, 5
		}
		n, efs, err := ck.runExhaustiveBitlist(ml, rl)
		if err != nil {
			fmt.Fprintln(os.Stderr, "verifctl: harness trouble:", err)
			return 2
		}
		exhaustiveN, exhaustiveFs = n, efs
		fmt.Printf("bounded exhaustive complement: %d BitList histories (all sequences of <= %d operations over %d concrete operations, <= %d over 12), %d divergences\n", n, ml, len(smallAlphabet()), rl, len(efs))
	}
	var fs []found
	if prop == "C18" {
		fs, err = ck.exploreLazy(cfg.scenarios, func(i int) *Scenario { return genC18At(seed, cfg, i) })
	} else {
		fs, err = ck.explore(scs)
	}
	fs = append(exhaustiveFs, fs...)
	if err != nil {
		fmt.Fprintln(os.Stderr, "verifctl: harness trouble:", err)
		ck.writeEvidence(0, rule, map[string]any{"aborted": err.Error()})
		return 2
	}
	fmt.Printf("explored %d scenarios, %d segments (%d race-build), %d steps in %.1fs\n", st.Scenarios, st.Segments, st.RaceSegments, st.Steps, time.Since(ck.start).Seconds())

	// group, separate known findings, shrink and report
	groups := map[string][]found{}
	var order []string
	for _, f := range fs {
		k := f.v.key()
		if _, ok := groups[k]; !ok {
			order = append(order, k)
		}
		groups[k] = append(groups[k], f)
	}
	sort.Strings(order)
	exit := 0
	nviol := 0
	knownSeen := map[string]bool{}
	reported := 0
	for _, k := range order {
		g := groups[k]
		if kf := known.match(prop, g[0].v); kf != nil {
			if !knownSeen[kf.Summary] {
				knownSeen[kf.Summary] = true
				fmt.Printf("KNOWN-FINDING: property=%s %s (%d occurrence(s) this run)\n", prop, kf.Summary, len(g))
			}
			continue
		}
		nviol += len(g)
		exit = 1
		if reported >= 3 {
			continue
		}
		reported++
		// smallest scenario first
		sort.SliceStable(g, func(i, j int) bool { return scenarioSize(g[i].sc) < scenarioSize(g[j].sc) })
		f := g[0]
		min, evals := ck.shrink(f.sc, f.v, cfg.shrinkEvals)
		path, werr := ck.writeReplay(min, f.v, evals)
		if werr != nil {
			fmt.Fprintln(os.Stderr, "verifctl: cannot write replay:", werr)
			path = "(unwritten)"
		}
		fmt.Printf("violation class=%s fn=%s what=%s: %s\n", f.v.Class, f.v.Fn, f.v.What, f.v.Detail)
		fmt.Printf("VIOLATION property=%s replay=%s\n", prop, path)
	}
	var extra map[string]any
	if prop == "C18" {
		extra = map[string]any{"exhaustive_small_histories": exhaustiveN,
			"exhaustive_small_histories_note": "complement to the seeded search: every operation sequence up to the stated length over a fixed alphabet of concrete operations around the 32-bit word boundary, run natively against the same model (not counted in evaluations)"}
	}
	if err := ck.writeEvidence(nviol, rule, extra); err != nil {
		fmt.Fprintln(os.Stderr, "verifctl: evidence:", err)
		return 2
	}
	// reach probes: a probe stuck at zero means the workload no longer exercises what the check is
	// about (a harness defect, e.g. an operation kind silently skipped), which must not pass as "held"
	if exit == 0 && cfg.scenarios >= 100 && os.Getenv("VERIF_ONLY_IDS") == "" {
		var missing []string
		need := func(name string, n int) {
			if n <= 0 {
				missing = append(missing, name)
			}
		}
		need("segments", st.Segments)
		need("context switches", int(st.Switches))
		need("leak checks", st.LeakChecks)
		switch prop {
		case "C15":
			need("restarts", st.Restarts)
			need("buffer mutations", st.Faults["buffer_mutation"])
			need("map order permutations", st.Faults["map_order"])
			need("clock jumps", st.Faults["clock_jump"])
			need("fresh-process references", ck.refs.runs)
		case "C16":
			need("race-build segments", st.RaceSegments)
			need("channel rendezvous", st.Pairs)
			need("cold contention", st.Faults["cold_contention"])
			need("stalls", st.Faults["stall"])
			need("library goroutines", st.Spawned)
		case "C18":
			for _, k := range []string{"iter", "itern", "fill", "switch", "handoffs", "set", "get", "bytes", "addbits", "addbyte", "addbit", "new"} {
				need("bitlist op "+k, st.BitStats[k])
			}
			need("exhaustive histories", exhaustiveN)
		}
		if len(missing) > 0 {
			fmt.Fprintf(os.Stderr, "verifctl: harness trouble: reach probes at zero: %v\n", missing)
			return 2
		}
	}
	if exit == 0 {
		fmt.Printf("OK property=%s held on everything explored\n", prop)
	}
	return exit
}

func scenarioSize(sc *Scenario) int {
	n := 0
	for i := range sc.Segments {
		n += 1000
		for _, ph := range sc.Segments[i].Phases {
			for _, prog := range ph {
				n += 10
				for k := range prog {
					n += 1 + len(prog[k].B)/16 + len(prog[k].Ops)
				}
			}
		}
	}
	return n
}

func replayDir() string {
	d := filepath.Join(verifRoot(), "replays")
	if v := os.Getenv("VERIF_REPLAY_DIR"); v != "" {
		d = v
	}
	os.MkdirAll(d, 0o755)
	return d
}

// ---- C18: bounded exhaustive complement -----------------------------------------

// smallAlphabet is a fixed set of concrete BitList operations around the word
// boundary. All sequences over it up to a small length are run natively
// (no_sim) against the same model: the property's quantifier asks for "all
// operation sequences up to a bound exhaustively"; this is that bound, the
// seeded search covers what lies beyond it.
func smallAlphabet() []BitOp {
	return []BitOp{
		{Op: "new", A: 0}, {Op: "new", A: 1}, {Op: "new", A: 31}, {Op: "new", A: 32}, {Op: "new", A: 33},
		{Op: "addbit", Bs: []bool{true}}, {Op: "addbit", Bs: []bool{false}}, {Op: "addbit", Bs: []bool{true, false, true}},
		{Op: "addbits", A: 5, N: 3}, {Op: "addbits", A: -1, N: 33}, {Op: "addbits", A: 1, N: 0}, {Op: "addbits", A: 0xABCDE, N: 20},
		{Op: "addbyte", A: 0xA5}, {Op: "addbyte", A: 0},
		{Op: "set", A: 0, V: true}, {Op: "set", A: 0, V: false}, {Op: "set", A: 31, V: true}, {Op: "set", A: 32, V: true},
		{Op: "get", A: 0}, {Op: "get", A: 32},
		{Op: "bytes"}, {Op: "iter"}, {Op: "itern", A: 2, N: 7}, {Op: "len"},
	}
}

func exhaustiveBitHistories(maxLen int, reducedLen int) []Call {
	alpha := smallAlphabet()
	reduced := []int{1, 3, 5, 7, 9, 12, 14, 16, 17, 20, 21, 22}
	var out []Call
	var rec func(prefix []BitOp, depth, limit int, idxs []int)
	rec = func(prefix []BitOp, depth, limit int, idxs []int) {
		if depth > 0 {
			ops := append(append([]BitOp(nil), prefix...), BitOp{Op: "bytes"}, BitOp{Op: "iter"})
			out = append(out, Call{Fn: "bitlist", I1: len(out), Ops: ops})
		}
		if depth == limit {
			return
		}
		for _, i := range idxs {
			rec(append(prefix, alpha[i]), depth+1, limit, idxs)
		}
	}
	all := make([]int, len(alpha))
	for i := range all {
		all[i] = i
	}
	rec(nil, 0, maxLen, all)
	n1 := len(out)
	if reducedLen > maxLen {
		// longer sequences over a reduced alphabet; skip those already produced (length <= maxLen)
		var tmp []Call
		save := out
		out = nil
		rec(nil, 0, reducedLen, reduced)
		for _, c := range out {
			if len(c.Ops)-2 > maxLen {
				tmp = append(tmp, c)
			}
		}
		out = append(save, tmp...)
	}
	_ = n1
	for i := range out {
		out[i].I1 = i
	}
	return out
}

// runExhaustiveBitlist executes the bounded enumeration natively and returns violations.
func (ck *Checker) runExhaustiveBitlist(maxLen, reducedLen int) (int, []found, error) {
	hs := exhaustiveBitHistories(maxLen, reducedLen)
	const per = 1500
	var mu sync.Mutex
	var fs []found
	var firstErr error
	var wg sync.WaitGroup
	for at := 0; at < len(hs); at += per {
		end := at + per
		if end > len(hs) {
			end = len(hs)
		}
		chunk := hs[at:end]
		wg.Add(1)
		go func() {
			defer wg.Done()
			seg := Segment{Kind: "calls", NoSim: true, Phases: [][][]Call{{chunk}}}
			out := ck.ex.run(&seg, false)
			mu.Lock()
			defer mu.Unlock()
			if out.Res == nil || len(out.Res.Results) == 0 {
				if firstErr == nil {
					firstErr = herr("exhaustive BitList run produced no result (exit %d): %s", out.ExitCode, tail(out.Stderr, 1500))
				}
				return
			}
			for i, cr := range out.Res.Results[0][0] {
				if cr.Class == "diverged" || cr.Class == "panic" {
					c := chunk[i]
					sc := &Scenario{ID: 2_000_000 + c.I1, Seed: uint64(c.I1), Property: "C18", Note: "bounded exhaustive enumeration",
						Segments: []Segment{{Kind: "calls", Seed: 1, Policy: Policy{Name: "fifo"}, Phases: [][][]Call{{{c}}}}}}
					v := Violation{Class: "model-divergence", Fn: "bitlist", Detail: cr.Err}
					if cr.Class == "panic" {
						v = Violation{Class: "panic", Fn: "bitlist", Detail: "BitList history panicked: " + cr.Panic}
					}
					fs = append(fs, found{sc, v, nil})
				}
			}
		}()
	}
	wg.Wait()
	return len(hs), fs, firstErr
}
