package main

import (
	"fmt"
	"os"
	"path/filepath"
	"runtime"
	"sort"
	"strconv"
	"time"

	. "verif/simtypes"
)

type tierCfg struct {
	pool        int
	scenarios   int
	raceFrac    float64
	profile     Profile
	maxOps      int // C15: calls per history; C18: ops per bit history
	maxW        []int
	maxBits     int
	budget      time.Duration
	shrinkEvals int
}

func cfgFor(prop, tier string) tierCfg {
	quick := tier != "thorough"
	switch prop {
	case "C15":
		if quick {
			return tierCfg{pool: 420, scenarios: 260, profile: Profile{MaxLen: 330, MaxRSEcc: 68, ScaleMax: 160}, maxOps: 50, budget: 4 * time.Minute, shrinkEvals: 120}
		}
		return tierCfg{pool: 5000, scenarios: 9000, profile: Profile{MaxLen: 2960, MaxRSEcc: 200, ScaleMax: 400, HeavyTail: true}, maxOps: 250, budget: 50 * time.Minute, shrinkEvals: 300}
	case "C16":
		if quick {
			return tierCfg{pool: 360, scenarios: 300, raceFrac: 0.3, profile: Profile{MaxLen: 110, MaxRSEcc: 68, ScaleMax: 120}, maxOps: 4, maxW: []int{2, 2, 3, 4, 4, 8, 16}, budget: 4 * time.Minute, shrinkEvals: 120}
		}
		return tierCfg{pool: 3000, scenarios: 10000, raceFrac: 0.3, profile: Profile{MaxLen: 700, MaxRSEcc: 200, ScaleMax: 250, HeavyTail: true}, maxOps: 6, maxW: []int{2, 2, 3, 4, 8, 8, 16, 32, 64}, budget: 60 * time.Minute, shrinkEvals: 300}
	default: // C18
		if quick {
			return tierCfg{scenarios: 220, raceFrac: 0.2, maxOps: 80, maxW: []int{1, 1, 1, 2, 3}, maxBits: 120_000, budget: 3 * time.Minute, shrinkEvals: 150}
		}
		return tierCfg{scenarios: 6000, raceFrac: 0.2, maxOps: 1500, maxW: []int{1, 1, 2, 3, 4}, maxBits: 400_000, budget: 40 * time.Minute, shrinkEvals: 400}
	}
}

// ---- C15 ----------------------------------------------------------------------

func genPool(r *rng, n int, p Profile, rsShared int) []Call {
	seen := map[string]bool{}
	var pool []Call
	for len(pool) < n {
		c := genCall(r, p, 0)
		k := callKey(&c)
		if seen[k] {
			continue
		}
		seen[k] = true
		pool = append(pool, c)
	}
	return pool
}

func withHistoryAttrs(r *rng, c Call, rsShared int, mutP float64) Call {
	if c.Fn == "rs" && rsShared > 0 && r.chance(0.85) {
		c.H = r.rangeIn(1, rsShared)
	}
	if (c.Fn == "aztec" || c.Fn == "rs") && r.chance(mutP) {
		c.Mut = true
	}
	return c
}

func genC15(seed uint64, cfg tierCfg) ([]*Scenario, []Call) {
	pr := &rng{s: mix(seed, 15, 1)}
	pool := genPool(pr, cfg.pool, cfg.profile, 0)
	// index pool by kind for biased histories
	var rsIdx, statefulIdx []int
	for i := range pool {
		switch pool[i].Fn {
		case "rs":
			rsIdx = append(rsIdx, i)
			statefulIdx = append(statefulIdx, i)
		case "qr", "dm", "aztec", "code39", "code93":
			statefulIdx = append(statefulIdx, i)
		}
	}
	var scs []*Scenario
	for id := 0; id < cfg.scenarios; id++ {
		s := mix(seed, 15, 2, uint64(id))
		r := &rng{s: s}
		sc := &Scenario{ID: id, Seed: s, Property: "C15"}
		nseg := 1
		switch x := r.intn(10); {
		case x < 4:
			nseg = 1
		case x < 7:
			nseg = 2
		case x < 9:
			nseg = 3
		default:
			nseg = 4
		}
		// focus set: calls repeated at different positions and across restarts
		focus := make([]int, r.rangeIn(2, 8))
		for i := range focus {
			if r.chance(0.7) && len(statefulIdx) > 0 {
				focus[i] = statefulIdx[r.intn(len(statefulIdx))]
			} else {
				focus[i] = r.intn(len(pool))
			}
		}
		for si := 0; si < nseg; si++ {
			n := r.rangeIn(3, cfg.maxOps)
			if r.chance(0.5) {
				n = r.rangeIn(3, 12)
			}
			var idxs []int
			for i := 0; i < n; i++ {
				switch x := r.intn(10); {
				case x < 4:
					idxs = append(idxs, focus[r.intn(len(focus))])
				case x < 6 && len(rsIdx) > 0:
					idxs = append(idxs, rsIdx[r.intn(len(rsIdx))])
				default:
					idxs = append(idxs, r.intn(len(pool)))
				}
			}
			// sometimes order RS calls by degree (ascending or descending growth of the cache)
			if r.chance(0.3) {
				var pos []int
				for i, ix := range idxs {
					if pool[ix].Fn == "rs" {
						pos = append(pos, i)
					}
				}
				vals := make([]int, len(pos))
				for i, p := range pos {
					vals[i] = idxs[p]
				}
				desc := r.chance(0.5)
				sort.SliceStable(vals, func(a, b int) bool {
					if desc {
						return pool[vals[a]].I1 > pool[vals[b]].I1
					}
					return pool[vals[a]].I1 < pool[vals[b]].I1
				})
				for i, p := range pos {
					idxs[p] = vals[i]
				}
			}
			var prog []Call
			for _, ix := range idxs {
				prog = append(prog, withHistoryAttrs(r, pool[ix], 2, 0.7))
			}
			seg := Segment{Kind: "calls", Seed: r.next(), Policy: genPolicy(r, 20000), MapMode: []int{0, 1, 2, 3, 4, 4, 3}[r.intn(7)], Phases: [][][]Call{{prog}}}
			if r.chance(0.4) {
				// the bubble's clock starts at 2000-01-01; move it past any real "now" that package
				// initialisation may have seen, plus a seeded amount
				seg.ClockNs = int64(40*365*24*time.Hour) + int64(r.next()%uint64(400*24*time.Hour))
				if r.chance(0.6) {
					seg.JumpPct = []int{5, 20, 50}[r.intn(3)]
				}
			}
			sc.Segments = append(sc.Segments, seg)
		}
		scs = append(scs, sc)
	}
	return scs, pool
}

// ---- C16 ----------------------------------------------------------------------

func genC16(seed uint64, cfg tierCfg) ([]*Scenario, []Call) {
	pr := &rng{s: mix(seed, 16, 1)}
	pool := genPool(pr, cfg.pool, cfg.profile, 0)
	var qrdm, scalable []int
	for i := range pool {
		switch pool[i].Fn {
		case "qr", "dm":
			qrdm = append(qrdm, i)
			scalable = append(scalable, i)
		case "rs", "addcs", "scale":
		default:
			scalable = append(scalable, i)
		}
	}
	var scs []*Scenario
	for id := 0; id < cfg.scenarios; id++ {
		s := mix(seed, 16, 2, uint64(id))
		r := &rng{s: s}
		sc := &Scenario{ID: id, Seed: s, Property: "C16"}
		// race-build segments are spread deterministically over the ids
		sc.Race = cfg.raceFrac > 0 && float64(mix(seed, 16, 3, uint64(id))%1000)/1000 < cfg.raceFrac
		w := cfg.maxW[r.intn(len(cfg.maxW))]
		seg := Segment{Kind: "calls", Seed: r.next(), MapMode: 4}
		rsShared := r.rangeIn(1, 2)
		// shared scale sources
		if r.chance(0.3) && len(scalable) > 0 {
			for i := r.rangeIn(1, 3); i > 0; i-- {
				seg.Shared = append(seg.Shared, pool[scalable[r.intn(len(scalable))]])
			}
		}
		if r.chance(0.35) {
			var warm []Call
			for i := r.rangeIn(1, 4); i > 0; i-- {
				warm = append(warm, withHistoryAttrs(r, pool[r.intn(len(pool))], rsShared, 0))
			}
			seg.Phases = append(seg.Phases, [][]Call{warm})
		}
		var conc [][]Call
		style := r.intn(4) // 0 mixed, 1 all QR/DM first, 2 same call everywhere, 3 mixed
		same := pool[r.intn(len(pool))]
		if len(qrdm) > 0 && r.chance(0.7) {
			same = pool[qrdm[r.intn(len(qrdm))]]
		}
		for wi := 0; wi < w; wi++ {
			n := r.rangeIn(1, cfg.maxOps)
			if w >= 16 {
				n = r.rangeIn(1, 2)
			}
			var prog []Call
			for ci := 0; ci < n; ci++ {
				var c Call
				switch {
				case style == 2 && ci == 0:
					c = same
				case style == 1 && ci == 0 && len(qrdm) > 0:
					c = pool[qrdm[r.intn(len(qrdm))]]
				case len(seg.Shared) > 0 && r.chance(0.3):
					c = genScale(r, cfg.profile, seg.Shared[r.intn(len(seg.Shared))])
					c.Share = true
				default:
					c = pool[r.intn(len(pool))]
				}
				prog = append(prog, withHistoryAttrs(r, c, rsShared, 0))
			}
			conc = append(conc, prog)
		}
		seg.Phases = append(seg.Phases, conc)
		if r.chance(0.25) {
			seg.ClockNs = int64(40*365*24*time.Hour) + int64(r.next()%uint64(400*24*time.Hour))
			seg.JumpPct = []int{0, 10, 40}[r.intn(3)]
		}
		sc.Segments = []Segment{seg}
		scs = append(scs, sc)
	}
	return scs, pool
}

// finishC16 sets the parts of a scenario that need the references: step
// estimate, cap, policy, stalls.
func finishC16(sc *Scenario, refs *RefTable) {
	r := &rng{s: mix(sc.Seed, 77)}
	seg := &sc.Segments[0]
	est := 0
	for _, ph := range seg.Phases {
		for _, prog := range ph {
			for i := range prog {
				if ref := refs.get(&prog[i]); ref != nil {
					est += ref.Steps + 2
				}
			}
		}
	}
	for i := range seg.Shared {
		if ref := refs.get(&seg.Shared[i]); ref != nil {
			est += ref.Steps + 2
		}
	}
	seg.Policy = genPolicy(r, est+10)
	seg.StepCap = 50*est + 100_000
	if r.chance(0.4) {
		w := len(seg.Phases[len(seg.Phases)-1])
		for i := r.rangeIn(1, 3); i > 0; i-- {
			ln := []int{10, 100, 1000, est + 1, est/4 + 1}[r.intn(5)]
			seg.Stalls = append(seg.Stalls, Stall{G: r.rangeIn(1, w+4*w), From: r.intn(est + 1), Len: ln})
		}
	}
}

// ---- C18 ----------------------------------------------------------------------

func genC18(seed uint64, cfg tierCfg) []*Scenario {
	var scs []*Scenario
	hist := 0
	for id := 0; id < cfg.scenarios; id++ {
		s := mix(seed, 18, 2, uint64(id))
		r := &rng{s: s}
		sc := &Scenario{ID: id, Seed: s, Property: "C18"}
		sc.Race = cfg.raceFrac > 0 && float64(mix(seed, 18, 3, uint64(id))%1000)/1000 < cfg.raceFrac
		w := cfg.maxW[r.intn(len(cfg.maxW))]
		seg := Segment{Kind: "calls", Seed: r.next(), Policy: genPolicy(r, 3000), StepCap: 30_000_000}
		var ph [][]Call
		for wi := 0; wi < w; wi++ {
			var prog []Call
			n := r.rangeIn(6, 22)
			for i := 0; i < n; i++ {
				maxOps := cfg.maxOps
				maxBits := cfg.maxBits
				switch r.intn(4) {
				case 0: // tiny histories: the "three or fewer operations" regime
					maxOps = 4
				case 1:
					maxOps = 20
					maxBits = 5000
				case 2:
					maxBits = 40_000
				}
				prog = append(prog, genBitHistory(r, maxOps, maxBits, hist))
				hist++
			}
			ph = append(ph, prog)
		}
		seg.Phases = [][][]Call{ph}
		if r.chance(0.3) && w > 0 {
			seg.Stalls = append(seg.Stalls, Stall{G: r.rangeIn(1, w+6), From: r.intn(2000), Len: r.rangeIn(10, 3000)})
		}
		sc.Segments = []Segment{seg}
		scs = append(scs, sc)
	}
	return scs
}

// ---- driver ---------------------------------------------------------------------

func seedFromEnv() uint64 {
	if v := os.Getenv("VERIF_SEED"); v != "" {
		if n, err := strconv.ParseUint(v, 10, 64); err == nil {
			return n
		}
		if n, err := strconv.ParseInt(v, 10, 64); err == nil {
			return uint64(n)
		}
		var h uint64 = 1469598103934665603
		for i := 0; i < len(v); i++ {
			h = (h ^ uint64(v[i])) * 1099511628211
		}
		return h
	}
	return 20260927
}

func runCheck(prop, tier string) int {
	seed := seedFromEnv()
	fmt.Printf("VERIF_SEED=%d property=%s tier=%s\n", seed, prop, tier)
	cfg := cfgFor(prop, tier)
	if v := os.Getenv("VERIF_SCENARIOS"); v != "" {
		if n, err := strconv.Atoi(v); err == nil {
			cfg.scenarios = n
		}
	}
	if v := os.Getenv("VERIF_BUDGET_S"); v != "" {
		if n, err := strconv.Atoi(v); err == nil {
			cfg.budget = time.Duration(n) * time.Second
		}
	}
	known, err := loadFindings()
	if err != nil {
		fmt.Fprintln(os.Stderr, "verifctl:", err)
		return 2
	}
	wantRace := cfg.raceFrac > 0
	b, err := NewBuild(repoRoot(), wantRace)
	if err != nil {
		fmt.Fprintln(os.Stderr, "verifctl: cannot build:", err)
		return 2
	}
	defer b.Close()
	fmt.Printf("built instrumented copy in %.1fs (%d sync sites, %d files rewritten)\n", b.BuildSecs, len(b.Report.Sites)-1, len(b.Report.FilesRewritten))
	st := newStats()
	par := runtime.NumCPU()
	if v := os.Getenv("VERIF_PAR"); v != "" {
		if n, err := strconv.Atoi(v); err == nil && n > 0 {
			par = n
		}
	}
	ck := &Checker{prop: prop, tier: tier, seed: seed, b: b, ex: newExecutor(b, par, st), refs: newRefTable(), st: st, known: known, start: time.Now(), budget: cfg.budget}

	var scs []*Scenario
	var rule string
	switch prop {
	case "C15":
		var pool []Call
		scs, pool = genC15(seed, cfg)
		_ = pool
		rule = "one evaluation = one simulated process lifetime (segment) of a single-caller history: a seeded sequence of encodes/Scale/RS calls over all symbologies, with restarts between segments, seeded internal goroutine schedule, seeded map iteration order, clock offset and post-return overwriting of []byte/[]int arguments; every call is compared with the same call run alone in a fresh process. distinct_nontrivial = distinct switch signatures (hash of the sequence of (goroutine role, sync site) at which control changed goroutine) among segments with at least one context switch"
	case "C16":
		scs, _ = genC16(seed, cfg)
		rule = "one evaluation = one cold process in which W caller goroutines (after an optional sequential warm-up) run programs of encodes/Scale/RS calls, every goroutine (callers and the library's own) released one at a time by the seeded scheduler at every channel/lock/go/call boundary, with stall faults; oracles: per-call equality with the fresh-process reference, no panic, no scheduler-level deadlock, step cap, no library goroutine alive at quiescence, no race report (race-build segments). distinct_nontrivial = distinct switch signatures among segments with at least one context switch between different goroutines"
	case "C18":
		scs = genC18(seed, cfg)
		rule = "one evaluation = one process in which 1..4 callers each run a list of seeded BitList operation histories (new/zero, AddBit, AddBits, AddByte, SetBit, GetBit, Len, GetBytes, IterateBytes) against a []bool model, the IterateBytes producer being interleaved with the consumer (which keeps reading) by the seeded scheduler; distinct_nontrivial = distinct switch signatures among segments with at least one producer/consumer context switch"
	default:
		fmt.Fprintln(os.Stderr, "verifctl: no check for property", prop)
		return 2
	}

	// references for every call that can occur
	var allCalls []*Call
	for _, sc := range scs {
		allCalls = append(allCalls, ck.callsOf(sc)...)
	}
	for _, c := range allCalls {
		if c.Fn != "bitlist" {
			st.DistinctCalls[refKey(c)] = true
		}
	}
	t0 := time.Now()
	if err := ck.ex.computeRefs(ck.refs, allCalls); err != nil {
		fmt.Fprintln(os.Stderr, "verifctl:", err)
		return 2
	}
	for _, ref := range ck.refs.m {
		if ref.Unavailable != "" {
			st.RefUnavailable++
		}
	}
	fmt.Printf("%d fresh-process references in %.1fs (%d unavailable)\n", ck.refs.runs, time.Since(t0).Seconds(), st.RefUnavailable)
	if prop == "C16" {
		for _, sc := range scs {
			finishC16(sc, ck.refs)
		}
	}

	fs, err := ck.explore(scs)
	if err != nil {
		fmt.Fprintln(os.Stderr, "verifctl: harness trouble:", err)
		ck.writeEvidence(0, rule, map[string]any{"aborted": err.Error()})
		return 2
	}
	fmt.Printf("explored %d scenarios, %d segments (%d race-build), %d steps in %.1fs\n", st.Scenarios, st.Segments, st.RaceSegments, st.Steps, time.Since(ck.start).Seconds())

	// group, separate known findings, shrink and report
	groups := map[string][]found{}
	var order []string
	for _, f := range fs {
		k := f.v.key()
		if _, ok := groups[k]; !ok {
			order = append(order, k)
		}
		groups[k] = append(groups[k], f)
	}
	sort.Strings(order)
	exit := 0
	nviol := 0
	knownSeen := map[string]bool{}
	reported := 0
	for _, k := range order {
		g := groups[k]
		if kf := known.match(prop, g[0].v); kf != nil {
			if !knownSeen[kf.Summary] {
				knownSeen[kf.Summary] = true
				fmt.Printf("KNOWN-FINDING: property=%s %s (%d occurrence(s) this run)\n", prop, kf.Summary, len(g))
			}
			continue
		}
		nviol += len(g)
		exit = 1
		if reported >= 3 {
			continue
		}
		reported++
		// smallest scenario first
		sort.SliceStable(g, func(i, j int) bool { return scenarioSize(g[i].sc) < scenarioSize(g[j].sc) })
		f := g[0]
		min, evals := ck.shrink(f.sc, f.v, cfg.shrinkEvals)
		path, werr := ck.writeReplay(min, f.v, evals)
		if werr != nil {
			fmt.Fprintln(os.Stderr, "verifctl: cannot write replay:", werr)
			path = "(unwritten)"
		}
		fmt.Printf("violation class=%s fn=%s what=%s: %s\n", f.v.Class, f.v.Fn, f.v.What, f.v.Detail)
		fmt.Printf("VIOLATION property=%s replay=%s\n", prop, path)
	}
	if err := ck.writeEvidence(nviol, rule, nil); err != nil {
		fmt.Fprintln(os.Stderr, "verifctl: evidence:", err)
		return 2
	}
	if exit == 0 {
		fmt.Printf("OK property=%s held on everything explored\n", prop)
	}
	return exit
}

func scenarioSize(sc *Scenario) int {
	n := 0
	for i := range sc.Segments {
		n += 1000
		for _, ph := range sc.Segments[i].Phases {
			for _, prog := range ph {
				n += 10
				for k := range prog {
					n += 1 + len(prog[k].B)/16 + len(prog[k].Ops)
				}
			}
		}
	}
	return n
}

func replayDir() string {
	d := filepath.Join(verifRoot(), "replays")
	if v := os.Getenv("VERIF_REPLAY_DIR"); v != "" {
		d = v
	}
	os.MkdirAll(d, 0o755)
	return d
}
