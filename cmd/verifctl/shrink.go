package main

import (
	"encoding/json"
	"fmt"
	"os"
	"path/filepath"
	"time"

	. "verif/simtypes"
)

func cloneScenario(sc *Scenario) *Scenario {
	b, _ := json.Marshal(sc)
	var c Scenario
	json.Unmarshal(b, &c)
	return &c
}

// fails re-executes a candidate and reports whether the same violation
// class (same key) is still present. Harness trouble counts as "does not fail".
func (ck *Checker) fails(sc *Scenario, target string) (bool, *Violation, []*RunOut) {
	if err := ck.ex.computeRefs(ck.refs, ck.callsOf(sc)); err != nil {
		return false, nil, nil
	}
	vs, outs, err := ck.runScenario(sc, false)
	if err != nil {
		return false, nil, outs
	}
	for i := range vs {
		if vs[i].key() == target {
			return true, &vs[i], outs
		}
	}
	return false, nil, outs
}

// shrink minimises the scenario while the same violation class persists.
func (ck *Checker) shrink(orig *Scenario, v Violation, budget int) (*Scenario, int) {
	target := v.key()
	cur := cloneScenario(orig)
	evals := 0
	deadline := time.Now().Add(ck.shrinkWall)
	try := func(c *Scenario) bool {
		if evals >= budget || time.Now().After(deadline) {
			return false
		}
		evals++
		ok, _, _ := ck.fails(c, target)
		if ok {
			cur = c
		}
		return ok
	}
	// over: the budget is spent; every loop below checks it so that no further candidate is even built
	// (cloning a 70 000-call marathon per candidate once kept the coordinator busy for an hour)
	over := func() bool { return evals >= budget || time.Now().After(deadline) }
	// confirm it reproduces at all (determinism): otherwise return the original
	if !try(cloneScenario(cur)) {
		return orig, evals
	}

	// 1. drop whole segments (restarts)
	for i := len(cur.Segments) - 1; i >= 0 && len(cur.Segments) > 1 && !over(); i-- {
		c := cloneScenario(cur)
		c.Segments = append(c.Segments[:i], c.Segments[i+1:]...)
		try(c)
	}
	// 2. per segment: drop shared, phases, workers, calls
	for si := 0; si < len(cur.Segments); si++ {
		if len(cur.Segments[si].Shared) > 0 {
			c := cloneScenario(cur)
			c.Segments[si].Shared = nil
			try(c)
		}
		for pi := len(cur.Segments[si].Phases) - 1; pi >= 0 && len(cur.Segments[si].Phases) > 1 && !over(); pi-- {
			c := cloneScenario(cur)
			s := &c.Segments[si]
			s.Phases = append(s.Phases[:pi], s.Phases[pi+1:]...)
			try(c)
		}
		for pi := 0; pi < len(cur.Segments[si].Phases); pi++ {
			// workers: halves, then singles
			for chunk := len(cur.Segments[si].Phases[pi]) / 2; chunk >= 1; chunk /= 2 {
				for at := 0; at+chunk <= len(cur.Segments[si].Phases[pi]) && len(cur.Segments[si].Phases[pi]) > chunk && !over(); {
					c := cloneScenario(cur)
					ph := c.Segments[si].Phases[pi]
					c.Segments[si].Phases[pi] = append(ph[:at:at], ph[at+chunk:]...)
					if !try(c) {
						at += chunk
					}
				}
			}
			for wi := 0; wi < len(cur.Segments[si].Phases[pi]); wi++ {
				for chunk := (len(cur.Segments[si].Phases[pi][wi]) + 1) / 2; chunk >= 1; chunk /= 2 {
					for at := 0; at+chunk <= len(cur.Segments[si].Phases[pi][wi]) && len(cur.Segments[si].Phases[pi][wi]) > chunk && !over(); {
						c := cloneScenario(cur)
						pr := c.Segments[si].Phases[pi][wi]
						c.Segments[si].Phases[pi][wi] = append(pr[:at:at], pr[at+chunk:]...)
						if !try(c) {
							at += chunk
						}
					}
					if chunk == 1 {
						break
					}
				}
			}
		}
	}
	// 3. simpler faults
	for si := range cur.Segments {
		if len(cur.Segments[si].Stalls) > 0 {
			c := cloneScenario(cur)
			c.Segments[si].Stalls = nil
			try(c)
		}
		if cur.Segments[si].MapMode != 0 {
			c := cloneScenario(cur)
			c.Segments[si].MapMode = 0
			try(c)
		}
		if cur.Segments[si].MidJumpPPM != 0 {
			c := cloneScenario(cur)
			c.Segments[si].MidJumpPPM = 0
			try(c)
		}
		if cur.Segments[si].GCPct != 0 {
			c := cloneScenario(cur)
			c.Segments[si].GCPct = 0
			try(c)
		}
		if cur.Segments[si].Procs != 0 {
			c := cloneScenario(cur)
			c.Segments[si].Procs = 0
			try(c)
		}
		if cur.Segments[si].JumpPct != 0 {
			c := cloneScenario(cur)
			c.Segments[si].JumpPct = 0
			try(c)
		}
		if cur.Segments[si].ClockNs != 0 {
			c := cloneScenario(cur)
			c.Segments[si].ClockNs = 0
			try(c)
		}
		if cur.Segments[si].Policy.Name != "fifo" {
			c := cloneScenario(cur)
			c.Segments[si].Policy = Policy{Name: "fifo"}
			try(c)
		}
	}
	if cur.Race {
		c := cloneScenario(cur)
		c.Race = false
		try(c)
	}
	// 4. smaller arguments
	for si := range cur.Segments {
		for pi := range cur.Segments[si].Phases {
			for wi := range cur.Segments[si].Phases[pi] {
				for ci := range cur.Segments[si].Phases[pi][wi] {
					if over() {
						break
					}
					call := &cur.Segments[si].Phases[pi][wi][ci]
					if call.Fn == "bitlist" {
						for chunk := (len(call.Ops) + 1) / 2; chunk >= 1; chunk /= 2 {
							for at := 0; ; {
								cc := &cur.Segments[si].Phases[pi][wi][ci]
								if at+chunk > len(cc.Ops) || len(cc.Ops) <= chunk || over() {
									break
								}
								c := cloneScenario(cur)
								ops := c.Segments[si].Phases[pi][wi][ci].Ops
								c.Segments[si].Phases[pi][wi][ci].Ops = append(ops[:at:at], ops[at+chunk:]...)
								if !try(c) {
									at += chunk
								}
							}
							if chunk == 1 {
								break
							}
						}
						continue
					}
					for len(cur.Segments[si].Phases[pi][wi][ci].B) > 1 && !over() {
						c := cloneScenario(cur)
						cc := &c.Segments[si].Phases[pi][wi][ci]
						cc.B = cc.B[:len(cc.B)/2]
						if !try(c) {
							break
						}
					}
					if cur.Segments[si].Phases[pi][wi][ci].Color != 0 {
						c := cloneScenario(cur)
						c.Segments[si].Phases[pi][wi][ci].Color = 0
						try(c)
					}
				}
			}
		}
	}
	// 5. explicit schedule: record, then cut the recorded choices to the shortest failing prefix
	for si := range cur.Segments {
		if evals >= budget {
			break
		}
		c := cloneScenario(cur)
		c.Segments[si].Record = true
		evals++
		ok, _, outs := ck.fails(c, target)
		if !ok || si >= len(outs) || outs[si].Res == nil {
			continue
		}
		ex := cloneScenario(cur)
		s := &ex.Segments[si]
		s.Replay = true
		s.Choices = outs[si].Res.Choices
		if s.Choices == nil {
			s.Choices = []int32{}
		}
		s.MapPay = outs[si].Res.MapPay
		s.Aux = outs[si].Res.Aux
		s.Stalls = nil
		if !try(ex) {
			continue
		}
		// trailing run-to-block is the default beyond the prefix: find a short prefix
		lo, hi := 0, len(cur.Segments[si].Choices)
		for lo < hi && evals < budget {
			mid := (lo + hi) / 2
			c2 := cloneScenario(cur)
			c2.Segments[si].Choices = c2.Segments[si].Choices[:mid]
			if try(c2) {
				hi = mid
			} else {
				lo = mid + 1
			}
		}
	}
	return cur, evals
}

// ---- replay files ---------------------------------------------------------------

type ReplayFile struct {
	Property    string          `json:"property"`
	Class       string          `json:"class"`
	Fn          string          `json:"fn,omitempty"`
	What        string          `json:"what,omitempty"`
	Detail      string          `json:"detail"`
	VerifSeed   uint64          `json:"verif_seed"`
	Scenario    *Scenario       `json:"scenario"`
	Violation   Violation       `json:"violation"`
	References  map[string]*Ref `json:"references,omitempty"`
	TraceTail   []string        `json:"trace_tail,omitempty"`
	ShrinkEvals int             `json:"shrink_evals"`
	Minimised   bool            `json:"minimised"`
	How         string          `json:"how_to_replay"`
}

func (ck *Checker) writeReplay(sc *Scenario, v Violation, evals int) (string, error) {
	// re-run the minimised scenario once more to capture the final detail
	ok, v2, outs := ck.fails(sc, v.key())
	rf := &ReplayFile{Property: ck.prop, Class: v.Class, Fn: v.Fn, What: v.What, Detail: v.Detail, VerifSeed: ck.seed, Scenario: sc, Violation: v, ShrinkEvals: evals, Minimised: ok,
		How: "cd /verif && ./check.sh replay <this file>   (rebuilds from /repo's working tree, re-runs exactly these segments in fresh processes; exit 1 iff the same violation class recurs)"}
	if ok && v2 != nil {
		rf.Violation = *v2
		rf.Detail = v2.Detail
		if v2.Seg < len(outs) && outs[v2.Seg] != nil && outs[v2.Seg].Res != nil {
			tr := outs[v2.Seg].Res.Trace
			if len(tr) > 60 {
				tr = tr[len(tr)-60:]
			}
			rf.TraceTail = tr
		}
	}
	rf.References = map[string]*Ref{}
	for _, c := range ck.callsOf(sc) {
		if r := ck.refs.get(c); r != nil {
			rf.References[refKey(c)] = r
		}
	}
	name := fmt.Sprintf("%s-%d-%d-%s.json", ck.prop, ck.seed, sc.Seed%1000000, v.Class)
	path := filepath.Join(replayDir(), name)
	b, _ := json.MarshalIndent(rf, "", " ")
	return path, os.WriteFile(path, b, 0o644)
}

func runReplay(path string) int {
	rb, err := os.ReadFile(path)
	if err != nil {
		fmt.Fprintln(os.Stderr, "verifctl:", err)
		return 2
	}
	var rf ReplayFile
	if err := json.Unmarshal(rb, &rf); err != nil {
		fmt.Fprintln(os.Stderr, "verifctl:", err)
		return 2
	}
	known, err := loadFindings()
	if err != nil {
		fmt.Fprintln(os.Stderr, "verifctl:", err)
		return 2
	}
	b, err := NewBuild(repoRoot(), rf.Scenario.Race)
	if err != nil {
		fmt.Fprintln(os.Stderr, "verifctl: cannot build:", err)
		return 2
	}
	defer b.Close()
	st := newStats()
	ck := &Checker{prop: rf.Property, tier: "replay", seed: rf.VerifSeed, b: b, ex: newExecutor(b, 8, st), refs: newRefTable(), st: st, known: known, start: time.Now(), shrinkWall: time.Minute}
	if err := ck.ex.computeRefs(ck.refs, ck.callsOf(rf.Scenario)); err != nil {
		fmt.Fprintln(os.Stderr, "verifctl:", err)
		return 2
	}
	vs, outs, err := ck.runScenario(rf.Scenario, false)
	if err != nil {
		fmt.Fprintln(os.Stderr, "verifctl: harness trouble:", err)
		return 2
	}
	want := rf.Violation.key()
	for _, v := range vs {
		if v.key() == want {
			fmt.Printf("reproduced: class=%s fn=%s what=%s: %s\n", v.Class, v.Fn, v.What, v.Detail)
			if v.Extra != "" {
				fmt.Println(head(v.Extra, 3000))
			}
			if v.Seg < len(outs) && outs[v.Seg].Res != nil {
				fmt.Printf("trace hash %s, %d steps\n", outs[v.Seg].Res.TraceHash, outs[v.Seg].Res.Steps)
			}
			fmt.Printf("VIOLATION property=%s replay=%s\n", rf.Property, path)
			return 1
		}
	}
	fmt.Printf("not reproduced: %d other violation(s) seen\n", len(vs))
	for _, v := range vs {
		fmt.Printf("  other: class=%s fn=%s: %s\n", v.Class, v.Fn, v.Detail)
	}
	return 0
}
