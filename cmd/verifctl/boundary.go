package main

import (
	"sort"
	"sync"

	. "verif/simtypes"
)

// Capacity boundaries are where an encoder switches to the next symbol size:
// inputs that exactly fill a symbol, and their neighbours one unit longer or
// shorter, in every mode of the same encoder. They are found by *probing the
// library* (bisection on the symbol width reported by fresh-process reference
// runs), not from spec tables, so nothing of the implementation is mirrored.

type sizeFamily struct {
	name  string
	maxN  int
	kinds []func(r *rng, n int) Call  // one generator per mode / content kind; content is a function of (seed, n)
	extra func(c Call, r *rng) []Call // siblings of a boundary call (e.g. QR Auto mode)
}

func contentOf(seed uint64, alpha string, n int) []byte {
	r := &rng{s: seed}
	return r.str(alpha, n)
}

func sizeFamilies(r *rng) []sizeFamily {
	level := r.intn(4)
	seed := r.next()
	qrKind := func(mode int, alpha string) func(*rng, int) Call {
		return func(_ *rng, n int) Call {
			return Call{Fn: "qr", I1: level, I2: mode, B: contentOf(seed, alpha, n)}
		}
	}
	ecc := []int{33, 33, 10, 50}[r.intn(4)]
	azKind := func(alpha string) func(*rng, int) Call {
		return func(_ *rng, n int) Call {
			return Call{Fn: "aztec", I1: ecc, I2: 0, B: contentOf(seed, alpha, n)}
		}
	}
	dmKind := func(alpha string) func(*rng, int) Call {
		return func(_ *rng, n int) Call { return Call{Fn: "dm", B: contentOf(seed, alpha, n)} }
	}
	return []sizeFamily{
		{name: "qr", maxN: 7200,
			kinds: []func(*rng, int) Call{qrKind(1, digits), qrKind(2, qrAlnum), qrKind(3, "abcdefghijklmnopqrstuvwxyz{}|~")},
			extra: func(c Call, r *rng) []Call {
				a := c
				a.I2 = 0 // Auto picks the same mode for this content
				return []Call{a}
			}},
		{name: "dm", maxN: 3200,
			kinds: []func(*rng, int) Call{dmKind(digits), dmKind("abcdefghijklmnopqrstuvwxyz ABC"), dmKind("\x80\x90\xa0\xfe\xff")}},
		{name: "aztec", maxN: 3900,
			kinds: []func(*rng, int) Call{azKind(digits), azKind("ABCDEFGHIJKLMNOPQRSTUVWXYZ "), azKind("abcdefghijklmnopqrstuvwxyz"), azKind("\x80\x90\xa0\xfe\xff\x00")}},
	}
}

// widthOf runs the call alone in a fresh process, natively (no simulator:
// this only chooses inputs, it is never an oracle), memoised, and returns the
// symbol width, or a huge value when the call fails (too much data).
func (ck *Checker) widthOf(c Call) (int, error) {
	k := refKey(&c)
	ck.wmu.Lock()
	if ck.widths == nil {
		ck.widths = map[string]int{}
	}
	w, ok := ck.widths[k]
	ck.wmu.Unlock()
	if ok {
		return w, nil
	}
	seg := &Segment{Kind: "calls", NoSim: true, Phases: [][][]Call{{{soloCall(&c)}}}}
	out := ck.ex.run(seg, false)
	if out.Res == nil || len(out.Res.Results) == 0 {
		return 0, herr("width probe produced no result (exit %d): %s", out.ExitCode, tail(out.Stderr, 1000))
	}
	cr := out.Res.Results[0][0][0]
	w = 1 << 30
	if cr.Class == "ok" && cr.W > 0 {
		w = cr.W
	}
	ck.wmu.Lock()
	ck.widths[k] = w
	ck.probes++
	ck.wmu.Unlock()
	return w, nil
}

// boundaryGroup finds, for one symbol size of one family, the longest input of
// every kind that still fits, and returns those inputs with their neighbours.
// target == 0: the size of a randomly chosen input of the first kind.
func (ck *Checker) boundaryGroup(r *rng, fam sizeFamily, maxExp int, target int) ([]Call, error) {
	for try := 0; try < 6 && target == 0; try++ {
		n0 := 1 << uint(r.rangeIn(0, maxExp))
		n0 += r.intn(n0)
		if r.chance(0.5) {
			n0 = r.rangeIn(1, 1<<uint(maxExp+1))
		}
		if n0 > fam.maxN {
			n0 = fam.maxN / 2
		}
		w, err := ck.widthOf(fam.kinds[0](r, n0))
		if err != nil {
			return nil, err
		}
		if w < 1<<30 {
			target = w
		}
	}
	if target == 0 {
		return nil, nil
	}
	type res struct {
		calls []Call
		err   error
	}
	out := make([]res, len(fam.kinds))
	var wg sync.WaitGroup
	for ki, kind := range fam.kinds {
		ki, kind := ki, kind
		kr := &rng{s: r.next()}
		wg.Add(1)
		go func() {
			defer wg.Done()
			// largest n in [0, maxN] with width(n) <= target (width is monotone in n)
			lo, hi := 0, fam.maxN // invariant: width(lo) <= target (n=0 checked below), width(hi+1) > target or hi == maxN
			w0, err := ck.widthOf(kind(kr, 0))
			if err != nil {
				out[ki].err = err
				return
			}
			if w0 > target {
				// even the empty input is bigger (or fails): start from 1
				lo = 1
				if w1, _ := ck.widthOf(kind(kr, 1)); w1 > target {
					return
				}
			}
			for lo < hi {
				mid := (lo + hi + 1) / 2
				w, err := ck.widthOf(kind(kr, mid))
				if err != nil {
					out[ki].err = err
					return
				}
				if w <= target {
					lo = mid
				} else {
					hi = mid - 1
				}
			}
			for _, n := range []int{lo - 1, lo, lo + 1, lo + 2} {
				if n < 0 || n > fam.maxN+2 {
					continue
				}
				c := kind(kr, n)
				out[ki].calls = append(out[ki].calls, c)
				if fam.extra != nil && n >= lo {
					out[ki].calls = append(out[ki].calls, fam.extra(c, kr)...)
				}
			}
		}()
	}
	wg.Wait()
	var group []Call
	for _, o := range out {
		if o.err != nil {
			return nil, o.err
		}
		group = append(group, o.calls...)
	}
	return group, nil
}

// boundaryGroups probes n groups, spread over the families.
func (ck *Checker) boundaryGroups(seed uint64, n int, maxExp int) ([][]Call, error) {
	var mu sync.Mutex
	var groups [][]Call
	var firstErr error
	var wg sync.WaitGroup
	for i := 0; i < n; i++ {
		i := i
		wg.Add(1)
		go func() {
			defer wg.Done()
			r := &rng{s: mix(seed, 991, uint64(i))}
			fams := sizeFamilies(r)
			fam := fams[[]int{0, 0, 0, 1, 2}[i%5]]
			g, err := ck.boundaryGroup(r, fam, maxExp, 0)
			mu.Lock()
			defer mu.Unlock()
			if err != nil && firstErr == nil {
				firstErr = err
			}
			if len(g) > 0 {
				groups = append(groups, g)
			}
		}()
	}
	wg.Wait()
	// deterministic order
	sort.Slice(groups, func(a, b int) bool { return callKey(&groups[a][0]) < callKey(&groups[b][0]) })
	return groups, firstErr
}

// maxFit: largest n in [lo0, maxN] with width(kind(n)) <= target, given width(kind(lo0)) <= target.
func (ck *Checker) maxFit(kind func(*rng, int) Call, lo0, maxN, target int) (int, error) {
	lo, hi := lo0, maxN
	for lo < hi {
		mid := (lo + hi + 1) / 2
		w, err := ck.widthOf(kind(nil, mid))
		if err != nil {
			return 0, err
		}
		if w <= target {
			lo = mid
		} else {
			hi = mid - 1
		}
	}
	return lo, nil
}

// allBoundaryGroups walks every symbol size the family can produce (for the
// parameters drawn from r) and returns one group per size.
func (ck *Checker) allBoundaryGroups(r *rng, fam sizeFamily) ([][]Call, error) {
	var targets []int
	n := 1
	for n <= fam.maxN {
		w, err := ck.widthOf(fam.kinds[0](nil, n))
		if err != nil {
			return nil, err
		}
		if w >= 1<<30 {
			break
		}
		targets = append(targets, w)
		b, err := ck.maxFit(fam.kinds[0], n, fam.maxN, w)
		if err != nil {
			return nil, err
		}
		n = b + 1
	}
	var mu sync.Mutex
	var groups [][]Call
	var firstErr error
	var wg sync.WaitGroup
	for ti, t := range targets {
		t := t
		gr := &rng{s: r.next() ^ uint64(ti)}
		wg.Add(1)
		go func() {
			defer wg.Done()
			g, err := ck.boundaryGroup(gr, fam, 0, t)
			mu.Lock()
			defer mu.Unlock()
			if err != nil && firstErr == nil {
				firstErr = err
			}
			if len(g) > 0 {
				groups = append(groups, g)
			}
		}()
	}
	wg.Wait()
	sort.Slice(groups, func(a, b int) bool { return callKey(&groups[a][0]) < callKey(&groups[b][0]) })
	return groups, firstErr
}

// everyBoundary: all sizes of QR at all four levels, of DataMatrix, and of Aztec at two ecc settings.
func (ck *Checker) everyBoundary(seed uint64) ([][]Call, error) {
	var all [][]Call
	var mu sync.Mutex
	var firstErr error
	var wg sync.WaitGroup
	run := func(tag uint64, pick func(fams []sizeFamily) sizeFamily, wantLevel int) {
		wg.Add(1)
		go func() {
			defer wg.Done()
			// draw family parameters until the wanted level comes up (levels are drawn inside sizeFamilies)
			var r *rng
			var fam sizeFamily
			for k := uint64(0); ; k++ {
				r = &rng{s: mix(seed, 995, tag, k)}
				probe := *r
				lvl := probe.intn(4)
				if wantLevel < 0 || lvl == wantLevel {
					fam = pick(sizeFamilies(r))
					break
				}
			}
			gs, err := ck.allBoundaryGroups(r, fam)
			mu.Lock()
			defer mu.Unlock()
			if err != nil && firstErr == nil {
				firstErr = err
			}
			all = append(all, gs...)
		}()
	}
	for lvl := 0; lvl < 4; lvl++ {
		run(uint64(lvl), func(f []sizeFamily) sizeFamily { return f[0] }, lvl)
	}
	run(10, func(f []sizeFamily) sizeFamily { return f[1] }, -1)
	run(20, func(f []sizeFamily) sizeFamily { return f[2] }, -1)
	run(21, func(f []sizeFamily) sizeFamily { return f[2] }, -1)
	wg.Wait()
	sort.Slice(all, func(a, b int) bool { return callKey(&all[a][0]) < callKey(&all[b][0]) })
	return all, firstErr
}
