package main

import (
	"encoding/json"
	"fmt"
	"strings"

	. "verif/simtypes"
)

// rng is SplitMix64: every random choice of the coordinator comes from one
// of these, seeded (through mix) from VERIF_SEED.
type rng struct{ s uint64 }

func (r *rng) next() uint64 {
	r.s += 0x9e3779b97f4a7c15
	z := r.s
	z = (z ^ (z >> 30)) * 0xbf58476d1ce4e5b9
	z = (z ^ (z >> 27)) * 0x94d049bb133111eb
	return z ^ (z >> 31)
}
func (r *rng) intn(n int) int {
	if n <= 1 {
		return 0
	}
	return int(r.next() % uint64(n))
}
func (r *rng) rangeIn(lo, hi int) int   { return lo + r.intn(hi-lo+1) }
func (r *rng) chance(p float64) bool    { return float64(r.next()>>11)/float64(1<<53) < p }
func (r *rng) pick(ss ...string) string { return ss[r.intn(len(ss))] }

func mix(seed uint64, tags ...uint64) uint64 {
	x := rng{s: seed}
	v := x.next()
	for _, t := range tags {
		x.s = v ^ (t * 0x9e3779b97f4a7c15)
		v = x.next()
	}
	return v
}

func callKey(c *Call) string {
	b, _ := json.Marshal(c)
	return string(b)
}

// refKey is the key of the call as run alone: scheduling-only attributes
// (sharing, post-hoc mutation) do not change what the call is.
func refKey(c *Call) string {
	d := *c
	d.Share = false
	d.Mut = false
	if d.Fn == "rs" {
		d.H = 0
	}
	if d.Src != nil {
		s := *d.Src
		s.Mut = false
		d.Src = &s
	}
	return callKey(&d)
}

// ---- content generators ---------------------------------------------------

const (
	digits     = "0123456789"
	qrAlnum    = "0123456789ABCDEFGHIJKLMNOPQRSTUVWXYZ $%*+-./:"
	c39Chars   = "0123456789ABCDEFGHIJKLMNOPQRSTUVWXYZ-. $/+%"
	codabarMid = "0123456789-$:/.+"
)

func (r *rng) str(alpha string, n int) []byte {
	b := make([]byte, n)
	for i := range b {
		b[i] = alpha[r.intn(len(alpha))]
	}
	return b
}

func (r *rng) ascii(n int) []byte {
	b := make([]byte, n)
	for i := range b {
		b[i] = byte(32 + r.intn(95))
	}
	return b
}

// ctl is text peppered with control characters and the byte values that
// encoders tend to special-case.
func (r *rng) ctl(n int) []byte {
	const special = "\r\n\t\x00\x1b\x1c\x1d\x1e\x1f\x7f ,.:;[]\\\"'"
	b := make([]byte, n)
	for i := range b {
		if r.chance(0.35) {
			b[i] = special[r.intn(len(special))]
		} else {
			b[i] = byte('A' + r.intn(58))
		}
	}
	return b
}

func (r *rng) bytes(n int) []byte {
	b := make([]byte, n)
	for i := range b {
		b[i] = byte(r.next())
	}
	return b
}

// length distribution: mostly short, sometimes medium, rarely long (bounded by max)
func (r *rng) length(max int) int {
	if max <= 0 {
		return 0
	}
	var n int
	switch x := r.intn(100); {
	case x < 5:
		n = r.intn(3)
	case x < 60:
		n = r.rangeIn(1, 24)
	case x < 88:
		n = r.rangeIn(16, 120)
	case x < 97:
		n = r.rangeIn(100, 400)
	default:
		n = r.rangeIn(300, max)
	}
	if n > max {
		n = max
	}
	return n
}

// Profile bounds the workload.
type Profile struct {
	MaxLen    int  // content length cap for 2D symbologies
	MaxRSEcc  int  // largest RS check-symbol count
	ScaleMax  int  // largest scaled dimension
	HeavyTail bool // allow near-capacity inputs
}

func genQR(r *rng, p Profile) Call {
	c := Call{Fn: "qr", I1: r.intn(4), I2: r.intn(4)}
	if r.chance(0.02) {
		c.I1 = 4 + r.intn(3) // undefined level: must fail cleanly
	}
	if r.chance(0.015) {
		// undefined mode: panics today (a nil encoder function); whatever it does it must do the same
		// alone and in company, and nothing may be left running behind the panic
		c.I2 = 4 + r.intn(4)
	}
	n := r.length(p.MaxLen)
	switch c.I2 {
	case 1: // numeric
		c.B = r.str(digits, n)
		if r.chance(0.15) && n > 0 {
			c.B[r.intn(n)] = "A-+ .x"[r.intn(6)]
		}
	case 2: // alphanumeric: the cancel path of the index pipeline
		c.B = r.str(qrAlnum, n)
		if r.chance(0.3) && n > 0 {
			// invalid character at a chosen position: first, second of a pair, last, anywhere
			pos := r.intn(n)
			switch r.intn(4) {
			case 0:
				pos = 0
			case 1:
				pos = n - 1
			case 2:
				pos = (r.intn(n) / 2) * 2
			}
			bad := []string{"a", "!", "\xff", "é", "€", "\x00", "z"}[r.intn(7)]
			c.B = append(append(append([]byte{}, c.B[:pos]...), bad...), c.B[pos+1:]...)
		}
	case 3: // unicode
		switch r.intn(3) {
		case 0:
			c.B = r.ascii(n)
		case 1:
			c.B = r.bytes(n)
		default:
			c.B = []byte(strings.Repeat("żółć€😀", n/15+1))[:n]
		}
	default: // auto
		switch r.intn(4) {
		case 0:
			c.B = r.str(digits, n)
		case 1:
			c.B = r.str(qrAlnum, n)
		case 2:
			c.B = r.ascii(n)
		default:
			c.B = r.bytes(n)
		}
	}
	return c
}

func genDM(r *rng, p Profile) Call {
	n := r.length(p.MaxLen)
	c := Call{Fn: "dm"}
	switch r.intn(5) {
	case 0:
		c.B = r.str(digits, n)
	case 1:
		c.B = r.ascii(n)
	case 2:
		c.B = r.bytes(n)
	case 3:
		c.B = r.ctl(n)
	default:
		c.B = r.str(qrAlnum, n)
	}
	return c
}

func genAztec(r *rng, p Profile) Call {
	n := r.length(p.MaxLen)
	c := Call{Fn: "aztec", I1: 33}
	switch r.intn(7) {
	case 0:
		c.B = r.str(digits+" ,.", n)
	case 1:
		c.B = r.ascii(n)
	case 2:
		c.B = r.bytes(n)
	case 3:
		c.B = r.ctl(n)
	case 4, 5:
		// mode-switch heavy text: words separated by the pairs and control characters the
		// high-level encoder treats specially
		seps := []string{"\r", "\n", "\r\n", ". ", ", ", ": ", " ", "\t", "@", "\\", "^", "_", "`", "|", "~", "\x7f", "\x1b", "!", "#", "12", "3.5", "-"}
		var b []byte
		for len(b) < n {
			switch r.intn(3) {
			case 0:
				b = append(b, r.str("ABCDEFGHIJKLMNOPQRSTUVWXYZ", r.rangeIn(1, 6))...)
			case 1:
				b = append(b, r.str("abcdefghijklmnopqrstuvwxyz", r.rangeIn(1, 6))...)
			default:
				b = append(b, r.str(digits, r.rangeIn(1, 4))...)
			}
			b = append(b, seps[r.intn(len(seps))]...)
		}
		c.B = b[:n]
	default:
		c.B = r.str("ABCDEFGHIJKLMNOPQRSTUVWXYZ abcdefghijklmnopqrstuvwxyz", n)
	}
	if r.chance(0.4) {
		c.I1 = []int{0, 1, 10, 23, 50, 75, 90, 100}[r.intn(8)]
	}
	if r.chance(0.3) {
		if r.chance(0.4) {
			c.I2 = -r.rangeIn(1, 4)
		} else {
			c.I2 = r.rangeIn(1, 32)
		}
	}
	if r.chance(0.04) {
		c.I2 = []int{-5, 33, 100, -100}[r.intn(4)] // outside the documented range: must fail cleanly
	}
	if r.chance(0.03) {
		c.I1 = []int{-1, -50, 101, 1000}[r.intn(4)]
	}
	return c
}

func genPDF(r *rng, p Profile) Call {
	n := r.length(p.MaxLen)
	c := Call{Fn: "pdf417", I1: r.intn(9)}
	if r.chance(0.04) {
		c.I1 = []int{9, 10, 100, 255}[r.intn(4)]
	}
	switch r.intn(4) {
	case 0:
		c.B = r.str(digits, n)
	case 1:
		c.B = r.ascii(n)
	case 2:
		c.B = r.ctl(n)
	default:
		c.B = r.bytes(n)
	}
	return c
}

func gen1D(r *rng, p Profile) Call { return gen1DKind(r, p, r.intn(8)) }

var families = []string{"qr", "dm", "aztec", "pdf417", "code128", "code39", "code93", "codabar", "ean", "2of5", "addcs"}

// genFamily draws a call of one encoder family.
func genFamily(r *rng, p Profile, fam string) Call {
	var c Call
	switch fam {
	case "qr":
		c = genQR(r, p)
	case "dm":
		c = genDM(r, p)
	case "aztec":
		c = genAztec(r, p)
	case "pdf417":
		c = genPDF(r, p)
	case "code128":
		c = gen1DKind(r, p, []int{0, 7}[r.intn(2)])
	case "code39":
		c = gen1DKind(r, p, 1)
	case "code93":
		c = gen1DKind(r, p, 2)
	case "codabar":
		c = gen1DKind(r, p, 3)
	case "ean":
		c = gen1DKind(r, p, 4)
	case "2of5":
		c = gen1DKind(r, p, 5)
	default:
		c = gen1DKind(r, p, 6)
	}
	if c.Fn != "addcs" && r.chance(0.3) {
		c.Color = r.rangeIn(1, 5)
	}
	return spice(r, c)
}

// corrupt returns a sibling of c whose content has a stray byte, is cut short or doubled.
func corrupt(r *rng, c Call) Call {
	v := c
	v.B = append([]byte(nil), c.B...)
	if len(v.B) == 0 {
		v.B = []byte{'x'}
		return v
	}
	switch r.intn(6) {
	case 0, 1, 2, 3:
		pos := r.intn(len(v.B))
		if r.chance(0.3) {
			pos = len(v.B) - 1
		}
		v.B[pos] = []byte{'x', 0xff, 0x00, '~', 'q', '-', ' '}[r.intn(7)]
	case 4:
		v.B = v.B[:len(v.B)/2]
	default:
		v.B = append(v.B, v.B...)
	}
	return v
}

func gen1DKind(r *rng, p Profile, kind int) Call {
	switch kind {
	case 0:
		c := Call{Fn: "code128"}
		if r.chance(0.3) {
			c.Fn = "code128nc"
		}
		n := r.rangeIn(0, 40)
		if r.chance(0.5) {
			c.B = r.str(digits, n)
		} else {
			c.B = r.ascii(n)
		}
		if r.chance(0.1) {
			c.B = append(c.B, "\xc3\xb1\xc3\xb2\xc3\xb3\xc3\xb4ü\x00"[r.intn(9):][:1]...)
		}
		return c
	case 1:
		c := Call{Fn: "code39", F1: r.chance(0.5), F2: r.chance(0.4)}
		n := r.rangeIn(0, 30)
		if c.F2 {
			c.B = r.ascii(n)
		} else {
			c.B = r.str(c39Chars, n)
		}
		if r.chance(0.1) {
			c.B = append(c.B, '*')
		}
		return c
	case 2:
		c := Call{Fn: "code93", F1: r.chance(0.6), F2: r.chance(0.4)}
		n := r.rangeIn(0, 30)
		if c.F2 {
			c.B = r.ascii(n)
		} else {
			c.B = r.str(c39Chars, n)
		}
		return c
	case 3:
		n := r.rangeIn(0, 24)
		b := append([]byte{"ABCD"[r.intn(4)]}, r.str(codabarMid, n)...)
		b = append(b, "ABCD"[r.intn(4)])
		if r.chance(0.1) {
			b[r.intn(len(b))] = 'x'
		}
		return Call{Fn: "codabar", B: b}
	case 4:
		n := []int{7, 12, 8, 13, 7, 12, 5}[r.intn(7)]
		b := r.str(digits, n)
		if (n == 8 || n == 13) && r.chance(0.7) {
			// make the check digit right most of the time
			sum := 0
			for i := n - 2; i >= 0; i-- {
				w := 3
				if (n-2-i)%2 == 1 {
					w = 1
				}
				sum += int(b[i]-'0') * w
			}
			b[n-1] = byte('0' + (10-sum%10)%10)
		}
		return Call{Fn: "ean", B: b}
	case 5:
		c := Call{Fn: "2of5", F1: r.chance(0.5)}
		n := r.rangeIn(0, 20)
		if c.F1 && r.chance(0.8) {
			n &^= 1
		}
		c.B = r.str(digits, n)
		if r.chance(0.08) && n > 0 {
			c.B[r.intn(n)] = 'a'
		}
		return c
	case 6:
		n := r.rangeIn(0, 20)
		c := Call{Fn: "addcs", B: r.str(digits, n)}
		if r.chance(0.1) && n > 0 {
			c.B[r.intn(n)] = '-'
		}
		return c
	default:
		c := Call{Fn: "code128", B: r.str(digits, r.rangeIn(2, 30))}
		return c
	}
}

var rsFields = [][3]int{
	{285, 256, 0},    // QR
	{301, 256, 1},    // DataMatrix
	{0x13, 16, 1},    // Aztec mode message
	{0x43, 64, 1},    // Aztec 6 bit
	{0x12D, 256, 1},  // Aztec 8 bit
	{0x409, 1024, 1}, // Aztec 10 bit
	{0x1069, 4096, 1},
}

func genRS(r *rng, p Profile, shared int) Call {
	f := rsFields[r.intn(len(rsFields))]
	c := Call{Fn: "rs", GF: f}
	n := r.rangeIn(1, 40)
	maxEcc := p.MaxRSEcc
	if f[1] == 16 {
		maxEcc = 10
		n = r.rangeIn(1, 5)
	} else if f[1] == 64 && maxEcc > 40 {
		maxEcc = 40
		n = r.rangeIn(1, 20)
	}
	c.Ints = make([]int, n)
	for i := range c.Ints {
		c.Ints[i] = r.intn(f[1])
	}
	// degrees cluster so that repeats, ascents and descents all happen
	switch r.intn(3) {
	case 0:
		c.I1 = r.rangeIn(1, 12)
	case 1:
		c.I1 = r.rangeIn(1, maxEcc)
	default:
		c.I1 = []int{7, 10, 13, 17, 22, 28, 30, 5, 14, 24, 36, 48, 56, 68}[r.intn(14)]
		if c.I1 > maxEcc {
			c.I1 = maxEcc
		}
	}
	if shared > 0 {
		c.H = r.rangeIn(1, shared)
	}
	return c
}

func genScale(r *rng, p Profile, src Call) Call {
	c := Call{Fn: "scale", Src: &src}
	// we do not know the source size here (no constants mirrored): pick sizes
	// from a range that is sometimes too small (error) and sometimes a few multiples
	c.I1 = r.rangeIn(1, p.ScaleMax)
	c.I2 = r.rangeIn(1, p.ScaleMax)
	if r.chance(0.5) {
		c.I2 = c.I1
	}
	if r.chance(0.3) {
		c.Fill = r.rangeIn(1, 200)
	}
	switch x := r.intn(100); {
	case x < 3:
		c.I1 = []int{0, -1, -100}[r.intn(3)]
	case x < 5:
		c.I2 = []int{0, -1}[r.intn(2)]
	case x < 7:
		c.I1, c.I2 = r.rangeIn(300, 900), r.rangeIn(1, 4) // wide and flat
	case x < 8:
		c.Fill = -1 // nil fill colour
	}
	return c
}

// genCall draws one call. kinds weights favour the stateful paths (QR,
// DataMatrix, RS) that the properties are about.
func genCall(r *rng, p Profile, rsShared int) Call {
	var c Call
	switch x := r.intn(100); {
	case x < 30:
		c = genQR(r, p)
	case x < 45:
		c = genDM(r, p)
	case x < 55:
		c = genAztec(r, p)
	case x < 62:
		c = genPDF(r, p)
	case x < 80:
		c = gen1D(r, p)
	case x < 92:
		c = genRS(r, p, rsShared)
	default:
		var src Call
		switch r.intn(4) {
		case 0:
			src = genQR(r, Profile{MaxLen: 40})
		case 1:
			src = genDM(r, Profile{MaxLen: 40})
		case 2:
			src = genAztec(r, Profile{MaxLen: 40})
		default:
			src = gen1D(r, p)
			for src.Fn == "addcs" {
				src = gen1D(r, p)
			}
		}
		if r.chance(0.4) {
			src.Color = r.rangeIn(1, 5)
		}
		if r.chance(0.25) {
			// a chain: the source is itself a Scale result
			inner := genScale(r, p, src)
			if r.chance(0.7) {
				inner.I1 = r.rangeIn(30, 90)
				inner.I2 = inner.I1
				if src.Fn != "qr" && src.Fn != "dm" && src.Fn != "aztec" {
					inner.I1, inner.I2 = r.rangeIn(100, 300), r.rangeIn(1, 20)
				}
			}
			src = inner
		}
		c = genScale(r, p, src)
		if c.Src.Fn == "scale" && r.chance(0.7) {
			c.I1, c.I2 = c.Src.I1*r.rangeIn(1, 3)+r.intn(7), c.Src.I2*r.rangeIn(1, 3)+r.intn(5)
		}
	}
	if c.Fn != "rs" && c.Fn != "addcs" && c.Fn != "scale" && r.chance(0.35) {
		c.Color = r.rangeIn(1, 5)
	}
	// error paths at every stage: a stray byte somewhere in otherwise valid content,
	// or far more data than any symbol holds
	return spice(r, c)
}

// spice adds the unusual: an interesting first/last byte, a stray byte, or far too much data.
func spice(r *rng, c Call) Call {
	if c.Fn != "rs" && c.Fn != "scale" && r.chance(0.12) {
		// an "interesting" byte at the very end or the very start: shift/latch decisions,
		// terminators and padding all depend on what comes last
		ch := []byte{'\r', '\n', '\t', 0, 0x1b, 0x7f, ' ', '.', ',', ':', '@', '0', 'a', 'A', 0x80, 0xff, '\r', '9'}[r.intn(18)]
		if r.chance(0.75) {
			c.B = append(append([]byte(nil), c.B...), ch)
		} else {
			c.B = append([]byte{ch}, c.B...)
		}
	}
	if c.Fn != "rs" && c.Fn != "scale" && len(c.B) > 0 {
		switch x := r.intn(100); {
		case x < 10:
			pos := r.intn(len(c.B))
			if r.chance(0.4) {
				pos = len(c.B) - 1 - r.intn(min(3, len(c.B)))
			}
			c.B = append([]byte(nil), c.B...)
			c.B[pos] = []byte{'x', 'X', '-', ' ', 0, 0xff, 0x80, '*', '\r', 'a', '~'}[r.intn(11)]
		case x < 12 && (c.Fn == "qr" || c.Fn == "dm" || c.Fn == "aztec" || c.Fn == "pdf417" || c.Fn == "code128"):
			big := r.rangeIn(3000, 9000)
			unit := c.B
			c.B = make([]byte, 0, big)
			for len(c.B) < big {
				c.B = append(c.B, unit...)
			}
		}
	}
	return c
}

func genPolicy(r *rng, est int) Policy {
	switch r.intn(10) {
	case 0:
		return Policy{Name: "fifo"}
	case 1, 2, 3:
		return Policy{Name: "uniform"}
	case 4, 5, 6:
		return Policy{Name: "sticky", P: []float64{0.01, 0.1, 0.5, 0.02, 0.2}[r.intn(5)]}
	default:
		return Policy{Name: "pct", D: r.rangeIn(1, 3), Est: est}
	}
}

func policyString(p Policy) string {
	switch p.Name {
	case "sticky":
		return fmt.Sprintf("sticky(%.2g)", p.P)
	case "pct":
		return fmt.Sprintf("pct(%d)", p.D)
	}
	return p.Name
}

// ---- BitList histories ------------------------------------------------------

func genBitHistory(r *rng, maxOps, maxBits int, id int) Call {
	c := Call{Fn: "bitlist", I1: id}
	n := r.rangeIn(1, maxOps)
	length := 0
	// streaming costs scheduler steps per byte: bound the bytes streamed per history
	// (most histories small, one in ten may stream a long list)
	iterBudget := 1200
	if r.chance(0.1) {
		iterBudget = 16000
	}
	add := func(op BitOp, grow int) {
		if op.Op == "iter" || op.Op == "itern" {
			cost := length/8 + 1
			if op.Op == "itern" {
				cost *= op.A
			}
			if cost > iterBudget {
				op = BitOp{Op: "bytes"}
			} else {
				iterBudget -= cost
			}
		}
		c.Ops = append(c.Ops, op)
		length += grow
	}
	// start: NewBitList(n) with n around word boundaries, or the zero value
	switch r.intn(4) {
	case 0:
		add(BitOp{Op: "zero"}, 0)
	default:
		var k int
		switch r.intn(5) {
		case 0:
			k = 0
		case 1:
			k = 32*r.intn(6) + r.rangeIn(-1, 1)
		case 2:
			k = r.intn(100)
		case 3:
			k = (1 << uint(r.rangeIn(5, 16))) + r.rangeIn(-2, 2)
		default:
			k = r.intn(5000)
		}
		if k < 0 {
			k = 0
		}
		if k > maxBits {
			k = maxBits
		}
		c.Ops = append(c.Ops, BitOp{Op: "new", A: k})
		length = k
	}
	// a history has a "style": small steps, bulk growth, or mixed
	style := r.intn(3)
	// some histories keep TWO lists alive and alternate between them (op "switch"): whatever the
	// implementation shares between lists (free lists, scratch blocks) must not leak from one to the other
	twoLists := r.chance(0.2)
	otherLen := 0
	huge := maxBits > 1_000_000
	for i := 0; i < n; i++ {
		if length >= maxBits {
			style = 0
		}
		if twoLists && r.chance(0.15) {
			c.Ops = append(c.Ops, BitOp{Op: "switch"})
			length, otherLen = otherLen, length
			continue
		}
		// bulk growth by pattern: all ones, all zeros, a short repeating pattern, or pseudo-random
		if style >= 1 && r.chance(0.06) && length < maxBits {
			nb := r.rangeIn(1000, 60000)
			if huge && r.chance(0.5) {
				nb = r.rangeIn(300_000, 2_500_000)
			}
			if length+nb > maxBits {
				nb = maxBits - length
			}
			op := BitOp{Op: "fill", N: nb, A: []int{1, 31, 32, 33, 1000, 4096, 5000, 8193, 20000, 65537, 300000}[r.intn(11)], Reads: r.intn(1 << 20)}
			switch r.intn(5) {
			case 0:
				op.V = true
			case 1:
				op.Bs = []bool{false}
			case 2:
				op.Bs = []bool{true, false}
			case 3:
				// a 32 or 64 bit pattern with the sign bit set / a single bit / runs
				pat := []uint64{0x80000000, 0xFFFFFFFF00000000, 0x00000001, 0x7FFFFFFF, 0xFF00FF00, 0x8000000080000001}[r.intn(6)]
				for k := 63; k >= 0; k-- {
					op.Bs = append(op.Bs, (pat>>uint(k))&1 == 1)
				}
			}
			add(op, nb)
			continue
		}
		x := r.intn(100)
		switch {
		case x < 22:
			k := r.rangeIn(0, 40)
			if style == 1 && r.chance(0.5) {
				k = r.rangeIn(100, 5000)
				if r.chance(0.15) {
					k = r.rangeIn(5000, 40000) // one very large variadic call
				}
			}
			if length+k > maxBits {
				k = 1
			}
			bs := make([]bool, k)
			for j := range bs {
				bs[j] = r.chance(0.5)
			}
			add(BitOp{Op: "addbit", Bs: bs}, k)
		case x < 42:
			k := r.rangeIn(0, 64)
			if r.chance(0.3) {
				k = []int{0, 1, 4, 6, 7, 8, 10, 11, 16, 31, 32, 33, 63, 64}[r.intn(14)]
			}
			v := int(r.next())
			if r.chance(0.3) {
				v = r.intn(1 << 12)
			}
			if r.chance(0.2) {
				v = []int{0, -1, 1 << 31, 1<<31 - 1, -1 << 31, 1 << 32, 0xFF00FF00, 1 << 62, -1 << 63, 0x80000001}[r.intn(10)]
			}
			add(BitOp{Op: "addbits", A: v, N: k}, k)
		case x < 58:
			reps := 1
			if style >= 1 && r.chance(0.4) {
				reps = r.rangeIn(2, 600)
			}
			fixed := -1
			if r.chance(0.25) {
				fixed = []int{0x00, 0xFF, 0x80, 0x01}[r.intn(4)]
			}
			for j := 0; j < reps && length+8 <= maxBits+8; j++ {
				b := r.intn(256)
				if fixed >= 0 {
					b = fixed
				}
				add(BitOp{Op: "addbyte", A: b}, 8)
			}
		case x < 72:
			if length > 0 {
				idx := r.intn(length)
				if r.chance(0.4) {
					// near a word boundary or the end
					idx = (r.intn(length/32+1))*32 + r.rangeIn(-1, 1)
					if r.chance(0.3) {
						idx = length - 1 - r.intn(3)
					}
					if idx < 0 || idx >= length {
						idx = length - 1
					}
				}
				add(BitOp{Op: "set", A: idx, V: r.chance(0.5)}, 0)
			}
		case x < 84:
			if length > 0 {
				add(BitOp{Op: "get", A: r.intn(length)}, 0)
			}
		case x < 88:
			add(BitOp{Op: "len"}, 0)
		case x < 94:
			add(BitOp{Op: "bytes"}, 0)
		case x < 97:
			add(BitOp{Op: "iter", Reads: r.intn(3)}, 0)
		default:
			add(BitOp{Op: "itern", A: r.rangeIn(2, 3), N: r.intn(1 << 20)}, 0)
		}
	}
	// some operations are performed by another goroutine (hand-over and back)
	if r.chance(0.3) {
		for i := range c.Ops {
			if r.chance(0.12) && c.Ops[i].Op != "switch" {
				c.Ops[i].Go = true
			}
		}
	}
	// always end with both byte views
	add(BitOp{Op: "bytes"}, 0)
	if r.chance(0.7) {
		add(BitOp{Op: "iter", Reads: r.intn(2)}, 0)
	} else if r.chance(0.5) {
		add(BitOp{Op: "itern", A: r.rangeIn(2, 3), N: r.intn(1 << 20)}, 0)
	}
	return c
}
