package main

import (
	"encoding/json"
	"fmt"
	"os"
	"path/filepath"
	"sort"
	"strconv"
	"sync"
	"time"

	. "verif/simtypes"
)

// classes each property's check is entitled to report
var reportable = map[string]map[string]bool{
	"C15": {"result-differs": true, "result-changed-later": true, "panic": true, "input-modified": true, "aliasing": true, "deadlock": true, "livelock": true, "goroutine-panic": true},
	"C16": {"result-differs": true, "result-changed-later": true, "panic": true, "deadlock": true, "livelock": true, "goroutine-panic": true, "goroutine-left-running": true, "data-race": true},
	"C18": {"model-divergence": true, "panic": true, "deadlock": true, "livelock": true, "goroutine-panic": true},
}

// Stats accumulates what a check run actually covered.
type Stats struct {
	mu             sync.Mutex
	Scenarios      int
	Segments       int
	RaceSegments   int
	Calls          int
	Steps          int64
	StepsPerRun    []int
	Switches       int64
	SwitchSigs     map[string]bool
	LockSigs       map[string]bool
	NontrivialSig  map[string]bool
	TraceHashes    map[string]bool
	Policies       map[string]int
	Workers        map[int]int
	Faults         map[string]int
	Sites          map[string]int
	LockWaits      int
	Spawned        int
	Restarts       int
	LeakChecks     int
	RaceReports    int
	OtherClasses   map[string]int // violations seen that this property does not report
	CallKinds      map[string]int
	OutcomeKinds   map[string]int
	BitStats       map[string]int
	Samples        []any
	RefUnavailable int
	DistinctCalls  map[string]bool
	LeaksNonModule int
	BoundaryGroups int
	BoundaryCalls  int
	FairKicks      int
	SimSeconds     float64
	Pairs          int
	Timers         int
	TimerFires     int
	Selects        int
	Fallbacks      int
}

func newStats() *Stats {
	return &Stats{LockSigs: map[string]bool{}, SwitchSigs: map[string]bool{}, NontrivialSig: map[string]bool{}, TraceHashes: map[string]bool{}, Policies: map[string]int{}, Workers: map[int]int{},
		Faults: map[string]int{}, Sites: map[string]int{}, OtherClasses: map[string]int{}, CallKinds: map[string]int{}, OutcomeKinds: map[string]int{}, BitStats: map[string]int{}, DistinctCalls: map[string]bool{}}
}

func (st *Stats) addRun(seg *Segment, race bool, out *RunOut) {
	st.mu.Lock()
	defer st.mu.Unlock()
	st.Segments++
	if race {
		st.RaceSegments++
	}
	st.Policies[policyString(seg.Policy)]++
	w := 0
	for _, ph := range seg.Phases {
		if len(ph) > w {
			w = len(ph)
		}
		for _, prog := range ph {
			st.Calls += len(prog)
			for i := range prog {
				st.CallKinds[prog[i].Fn]++
				if prog[i].Mut {
					st.Faults["buffer_mutation"]++
				}
			}
		}
	}
	st.Workers[w]++
	if seg.ClockNs > 0 {
		st.Faults["clock_offset"]++
	}
	if seg.MidJumpPPM > 0 {
		st.Faults["mid_call_clock_jump_segments"]++
	}
	if seg.GCPct > 0 {
		st.Faults["forced_gc_segments"]++
	}
	if seg.Procs > 0 {
		st.Faults["gomaxprocs_varied_segments"]++
	}
	if len(seg.Phases) > 0 && len(seg.Phases[0]) > 1 {
		st.Faults["cold_contention"]++
	}
	r := out.Res
	if r == nil {
		return
	}
	st.Steps += int64(r.Steps)
	st.StepsPerRun = append(st.StepsPerRun, r.Steps)
	st.Switches += int64(r.Switches)
	st.SwitchSigs[r.SwitchSig] = true
	if r.LockSig != "" && w > 1 {
		st.LockSigs[r.LockSig] = true
	}
	st.TraceHashes[r.TraceHash] = true
	if r.Switches > 0 {
		st.NontrivialSig[r.SwitchSig] = true
	}
	st.LockWaits += r.LockWaits
	st.Spawned += r.Spawned
	st.Faults["stall"] += r.StallsFired
	st.Faults["preempt"] += r.Preempts
	st.Faults["clock_jump"] += r.ClockJumps
	st.FairKicks += r.FairKicks
	st.Timers += r.Timers
	st.TimerFires += r.TimerFires
	st.Pairs += r.Pairs
	st.Selects += r.Selects
	st.Fallbacks += r.Fallbacks
	st.SimSeconds += float64(r.SimNs) / 1e9
	if seg.MapMode != 0 {
		st.Faults["map_order"] += r.MapRanges
	}
	for k, v := range r.Sites {
		st.Sites[k] += v
	}
	if r.Verdict == "done" {
		st.LeakChecks++
		for _, l := range r.Leaks {
			if !l.Module {
				st.LeaksNonModule++
			}
		}
	}
	st.RaceReports += out.Races()
	for _, ph := range r.Results {
		for _, prog := range ph {
			for _, cr := range prog {
				st.OutcomeKinds[cr.Class]++
				for k, v := range cr.Stats {
					if k == "max_len" {
						if v > st.BitStats[k] {
							st.BitStats[k] = v
						}
					} else {
						st.BitStats[k] += v
					}
				}
			}
		}
	}
}

func percentile(xs []int, p float64) int {
	if len(xs) == 0 {
		return 0
	}
	s := append([]int(nil), xs...)
	sort.Ints(s)
	i := int(float64(len(s)-1) * p)
	return s[i]
}

// found is a violation together with the scenario that produced it.
type found struct {
	sc   *Scenario
	v    Violation
	outs []*RunOut
}

type Checker struct {
	prop       string
	tier       string
	seed       uint64
	b          *Build
	ex         *Executor
	refs       *RefTable
	st         *Stats
	known      *FindingsFile
	start      time.Time
	budget     time.Duration
	shrinkWall time.Duration
	wmu        sync.Mutex
	widths     map[string]int
	probes     int
}

// runScenario executes all segments of a scenario (sequentially: they are
// consecutive process lifetimes) and judges them.
func (ck *Checker) runScenario(sc *Scenario, record bool) ([]Violation, []*RunOut, error) {
	var all []Violation
	var outs []*RunOut
	for i := range sc.Segments {
		seg := &sc.Segments[i]
		out := ck.ex.run(seg, sc.Race)
		outs = append(outs, out)
		if record {
			ck.st.addRun(seg, sc.Race, out)
		}
		vs, err := judge(ck.b, ck.prop, i, seg, out, ck.refs)
		if err != nil {
			return nil, outs, err
		}
		all = append(all, vs...)
	}
	return all, outs, nil
}

func (ck *Checker) callsOf(sc *Scenario) []*Call {
	var cs []*Call
	for i := range sc.Segments {
		seg := &sc.Segments[i]
		for j := range seg.Shared {
			cs = append(cs, &seg.Shared[j])
		}
		for _, ph := range seg.Phases {
			for _, prog := range ph {
				for k := range prog {
					cs = append(cs, &prog[k])
				}
			}
		}
	}
	return cs
}

// explore runs scenarios in parallel and returns the reportable violations.
func (ck *Checker) explore(scs []*Scenario) ([]found, error) {
	return ck.exploreLazy(len(scs), func(i int) *Scenario { return scs[i] })
}

// exploreLazy is explore over scenarios produced on demand (memory stays
// bounded when scenarios are large, as C18's long histories are).
func (ck *Checker) exploreLazy(n int, at func(i int) *Scenario) ([]found, error) {
	var mu sync.Mutex
	var fs []found
	var firstErr error
	var wg sync.WaitGroup
	gate := make(chan struct{}, ck.ex.par*2)
	for i := 0; i < n; i++ {
		gate <- struct{}{} // before generating: at most 2*par scenarios exist at a time
		sc := at(i)
		mu.Lock()
		stop := firstErr != nil
		mu.Unlock()
		if stop {
			<-gate
			break
		}
		if ck.budget > 0 && time.Since(ck.start) > ck.budget {
			<-gate
			break
		}
		wg.Add(1)
		go func() {
			defer wg.Done()
			defer func() { <-gate }()
			vs, outs, err := ck.runScenario(sc, true)
			ck.st.mu.Lock()
			ck.st.Scenarios++
			if len(sc.Segments) > 1 {
				ck.st.Restarts += len(sc.Segments) - 1
				ck.st.Faults["restart"] += len(sc.Segments) - 1
			}
			ck.st.mu.Unlock()
			mu.Lock()
			defer mu.Unlock()
			if err != nil {
				if firstErr == nil {
					firstErr = err
				}
				return
			}
			ck.st.mu.Lock()
			for _, v := range vs {
				if !reportable[ck.prop][v.Class] {
					ck.st.OtherClasses[v.Class]++
					continue
				}
				fs = append(fs, found{sc, v, outs})
			}
			if len(ck.st.Samples) < 4 && len(sc.Segments) > 0 && outs[0].Res != nil {
				ck.st.Samples = append(ck.st.Samples, sampleOf(sc, outs))
			}
			ck.st.mu.Unlock()
		}()
	}
	wg.Wait()
	return fs, firstErr
}

func sampleOf(sc *Scenario, outs []*RunOut) any {
	type segS struct {
		Policy   string     `json:"policy"`
		MapMode  int        `json:"map_mode"`
		Workers  int        `json:"workers"`
		Programs [][]string `json:"programs"`
		Steps    int        `json:"steps"`
		Switches int        `json:"switches"`
		Trace    []string   `json:"trace_head,omitempty"`
	}
	var segs []segS
	for i := range sc.Segments {
		seg := &sc.Segments[i]
		s := segS{Policy: policyString(seg.Policy), MapMode: seg.MapMode}
		for _, ph := range seg.Phases {
			if len(ph) > s.Workers {
				s.Workers = len(ph)
			}
			for wi, prog := range ph {
				if wi >= 4 {
					break
				}
				var ps []string
				for ci := range prog {
					if ci >= 6 {
						ps = append(ps, fmt.Sprintf("… %d more", len(prog)-ci))
						break
					}
					ps = append(ps, describeCall(&prog[ci]))
				}
				s.Programs = append(s.Programs, ps)
			}
		}
		if i < len(outs) && outs[i].Res != nil {
			s.Steps = outs[i].Res.Steps
			s.Switches = outs[i].Res.Switches
			tr := outs[i].Res.Trace
			if len(tr) > 12 {
				tr = tr[len(tr)-12:]
			}
			s.Trace = tr
		}
		segs = append(segs, s)
		if len(segs) >= 3 {
			break
		}
	}
	return map[string]any{"scenario_seed": sc.Seed, "race_build": sc.Race, "segments": segs}
}

func describeCall(c *Call) string {
	switch c.Fn {
	case "bitlist":
		var ops []string
		for i, o := range c.Ops {
			if i >= 8 {
				ops = append(ops, fmt.Sprintf("…%d more", len(c.Ops)-i))
				break
			}
			switch o.Op {
			case "new":
				ops = append(ops, fmt.Sprintf("new(%d)", o.A))
			case "addbit":
				ops = append(ops, fmt.Sprintf("addbit×%d", len(o.Bs)))
			case "addbits":
				ops = append(ops, fmt.Sprintf("addbits(%#x,%d)", uint64(o.A), o.N))
			case "addbyte":
				ops = append(ops, fmt.Sprintf("addbyte(%#02x)", o.A))
			case "set":
				ops = append(ops, fmt.Sprintf("set(%d,%v)", o.A, o.V))
			case "get":
				ops = append(ops, fmt.Sprintf("get(%d)", o.A))
			case "itern":
				ops = append(ops, fmt.Sprintf("iter×%d", o.A))
			case "fill":
				ops = append(ops, fmt.Sprintf("fill(%d bits, chunks of %d)", o.N, o.A))
			default:
				ops = append(ops, o.Op)
			}
		}
		return "bitlist[" + fmt.Sprint(ops) + "]"
	case "rs":
		return fmt.Sprintf("rs(gf=%v,h=%d,n=%d,ecc=%d)", c.GF, c.H, len(c.Ints), c.I1)
	case "scale":
		return fmt.Sprintf("scale(%s,%d,%d,share=%v)", describeCall(c.Src), c.I1, c.I2, c.Share)
	case "same":
		return fmt.Sprintf("observe-shared(%s)", describeCall(c.Src))
	}
	s := fmt.Sprintf("%s(%s", c.Fn, strconv.QuoteToASCII(head(string(c.B), 24)))
	if len(c.B) > 24 {
		s += fmt.Sprintf("[%dB]", len(c.B))
	}
	switch c.Fn {
	case "qr", "aztec":
		s += fmt.Sprintf(",%d,%d", c.I1, c.I2)
	case "pdf417":
		s += fmt.Sprintf(",%d", c.I1)
	case "code39", "code93":
		s += fmt.Sprintf(",%v,%v", c.F1, c.F2)
	case "2of5":
		s += fmt.Sprintf(",%v", c.F1)
	}
	if c.Color != 0 {
		s += fmt.Sprintf(",color%d", c.Color)
	}
	if c.Mut {
		s += ",mut"
	}
	return s + ")"
}

// ---- evidence -----------------------------------------------------------------

func (ck *Checker) writeEvidence(violations int, rule string, extra map[string]any) error {
	st := ck.st
	wall := time.Since(ck.start).Seconds()
	never := []string{}
	for _, s := range ck.b.Report.Sites {
		if s.ID == 0 {
			continue
		}
		if st.Sites[s.Label] == 0 {
			never = append(never, s.Label)
		}
	}
	sort.Strings(never)
	cov := map[string]any{
		"evaluations":                         st.Segments,
		"distinct_nontrivial":                 len(st.NontrivialSig),
		"rule":                                rule,
		"samples":                             st.Samples,
		"scenarios":                           st.Scenarios,
		"calls_executed":                      st.Calls,
		"distinct_calls":                      len(st.DistinctCalls),
		"runs_per_hour":                       int(float64(st.Segments) / wall * 3600),
		"sim_steps_total":                     st.Steps,
		"steps_per_run_p50":                   percentile(st.StepsPerRun, 0.5),
		"steps_per_run_p95":                   percentile(st.StepsPerRun, 0.95),
		"context_switches":                    st.Switches,
		"distinct_trace_hashes":               len(st.TraceHashes),
		"distinct_switch_signatures":          len(st.SwitchSigs),
		"simulated_time":                      fmt.Sprintf("%.0f s of fake-clock time passed inside the bubbles (clock_offset and clock_jump faults; the library itself never reads a clock, so no timer ever advances it)", st.SimSeconds),
		"faults_fired":                        st.Faults,
		"policies":                            st.Policies,
		"workers_histogram":                   intKeys(st.Workers),
		"sites_hit":                           st.Sites,
		"sites_never_hit":                     never,
		"lock_waits":                          st.LockWaits,
		"distinct_lock_acquisition_orders":    len(st.LockSigs),
		"fairness_interventions":              st.FairKicks,
		"channel_rendezvous_paired":           st.Pairs,
		"timers_modelled":                     st.Timers,
		"timer_fires":                         st.TimerFires,
		"select_choices_made":                 st.Selects,
		"external_channel_fallbacks":          st.Fallbacks,
		"capacity_boundary_probes":            ck.probes,
		"capacity_boundary_groups":            st.BoundaryGroups,
		"capacity_boundary_calls":             st.BoundaryCalls,
		"library_goroutines_spawned":          st.Spawned,
		"race_build_segments":                 st.RaceSegments,
		"race_reports":                        st.RaceReports,
		"leak_checks":                         st.LeakChecks,
		"restarts":                            st.Restarts,
		"fresh_reference_runs":                ck.refs.runs,
		"reference_unavailable":               st.RefUnavailable,
		"call_kinds":                          st.CallKinds,
		"outcome_classes":                     st.OutcomeKinds,
		"violations_of_other_properties_seen": st.OtherClasses,
		"uninstrumented_sync_sites":           ck.b.Report.Uninstrumented,
		"instrumented_sites":                  ck.b.Report.Counts,
		"real_components":                     []string{"all library code (instrumented copy of /repo's working tree)", "Go channels", "sync.Mutex (via TryLock)", "Go race detector (race-build segments)", "process start / exit (one OS process per lifetime)"},
		"simulated_components":                []string{"which goroutine runs next at every synchronisation point", "map iteration order", "clock (synctest fake clock)"},
		"stubs":                               []string{},
		"build_seconds":                       ck.b.BuildSecs,
	}
	if len(st.BitStats) > 0 {
		cov["bitlist"] = st.BitStats
	}
	for k, v := range extra {
		cov[k] = v
	}
	ev := map[string]any{
		"property_id": ck.prop,
		"tier":        ck.tier,
		"seed":        int64(ck.seed & 0x7fffffffffffffff),
		"level":       "exploration",
		"coverage":    cov,
		"assumptions": []string{
			"library compiled with go1.26.8 (needed for testing/synctest) although go.mod says 1.23.5",
			"scheduling points only at synchronisation operations; data-race freedom between them is checked by the race detector on race-build segments",
			"sampling, not enumeration: a clean run is evidence, not proof",
			"instrumented copy is semantically the original when no simulator is attached (checked by running the repository's own tests on it in the thorough tier)",
		},
		"wall_s":     wall,
		"violations": violations,
	}
	b, _ := json.MarshalIndent(ev, "", " ")
	dir := filepath.Join(verifRoot(), "evidence")
	if v := os.Getenv("VERIF_EVIDENCE_DIR"); v != "" {
		dir = v // used when the check is pointed at a scratch tree (mutants), so real evidence is not overwritten
	}
	os.MkdirAll(dir, 0o755)
	return os.WriteFile(filepath.Join(dir, ck.prop+".json"), b, 0o644)
}

func intKeys(m map[int]int) map[string]int {
	o := map[string]int{}
	for k, v := range m {
		o[strconv.Itoa(k)] = v
	}
	return o
}
