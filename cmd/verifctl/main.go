// Command verifctl is the coordinator of the deterministic simulation:
// seeds -> scenarios -> node processes -> oracles -> shrinking -> replay
// file -> evidence -> exit code.
package main

import (
	"encoding/json"
	"fmt"
	"os"

	. "verif/simtypes"
)

func usage() {
	fmt.Fprintln(os.Stderr, `usage:
  verifctl check <C15|C16|C18> <quick|thorough>
  verifctl replay <file>
  verifctl selftest determinism|instrumented-tests|instrumenter
  verifctl run-seg <segment.json> [race]     (debug)`)
	os.Exit(2)
}

func main() {
	if len(os.Args) < 2 {
		usage()
	}
	switch os.Args[1] {
	case "check":
		if len(os.Args) < 4 {
			usage()
		}
		os.Exit(runCheck(os.Args[2], os.Args[3]))
	case "replay":
		if len(os.Args) < 3 {
			usage()
		}
		os.Exit(runReplay(os.Args[2]))
	case "selftest":
		if len(os.Args) < 3 {
			usage()
		}
		switch os.Args[2] {
		case "determinism":
			n := 40
			if len(os.Args) > 3 {
				fmt.Sscanf(os.Args[3], "%d", &n)
			}
			os.Exit(selftestDeterminism(n))
		case "instrumented-tests":
			os.Exit(selftestInstrumentedTests())
		case "instrumenter":
			os.Exit(selftestInstrumenter())
		case "sim-constructs":
			n := 120
			if len(os.Args) > 3 {
				fmt.Sscanf(os.Args[3], "%d", &n)
			}
			os.Exit(selftestSimConstructs(n))
		}
		usage()
	case "run-seg-tags": // debug: run-seg-tags <tags> <segment.json>   (VERIF_REPO selects the tree)
		b, err := NewBuildTags(repoRoot(), false, os.Args[2])
		if err != nil {
			fmt.Fprintln(os.Stderr, err)
			os.Exit(2)
		}
		defer b.Close()
		sb, _ := os.ReadFile(os.Args[3])
		var seg Segment
		json.Unmarshal(sb, &seg)
		out := b.RunSegment(&seg, RunOpts{})
		if out.Res != nil {
			jb, _ := json.MarshalIndent(out.Res, "", " ")
			fmt.Println(string(jb))
		} else {
			fmt.Println(out.Stderr)
		}
	case "run-seg":
		if len(os.Args) < 3 {
			usage()
		}
		race := len(os.Args) > 3 && os.Args[3] == "race"
		b, err := NewBuild(repoRoot(), race)
		if err != nil {
			fmt.Fprintln(os.Stderr, err)
			os.Exit(2)
		}
		defer b.Close()
		sb, err := os.ReadFile(os.Args[2])
		if err != nil {
			fmt.Fprintln(os.Stderr, err)
			os.Exit(2)
		}
		var seg Segment
		if err := json.Unmarshal(sb, &seg); err != nil {
			fmt.Fprintln(os.Stderr, err)
			os.Exit(2)
		}
		out := b.RunSegment(&seg, RunOpts{Race: race})
		fmt.Fprintf(os.Stderr, "build %.1fs, run %v, exit %d, timedout %v\n", b.BuildSecs, out.Wall, out.ExitCode, out.TimedOut)
		if out.Res != nil {
			jb, _ := json.MarshalIndent(out.Res, "", " ")
			fmt.Println(string(jb))
		} else {
			fmt.Println(out.Stderr)
		}
		if out.RaceLog != "" {
			fmt.Fprintln(os.Stderr, "RACE LOG:\n"+out.RaceLog[:min(len(out.RaceLog), 3000)])
		}
	default:
		usage()
	}
}
