package main

import (
	"bufio"
	"bytes"
	"encoding/json"
	"fmt"
	"os"
	"os/exec"
	"regexp"
	"sort"
	"strings"
	"sync"
	"time"

	. "verif/simtypes"
)

var addrRe = regexp.MustCompile(` a\d+ `)
var condArgRe = regexp.MustCompile(`( condwait s\d+ a\* x)\d+`)

func maskTrace(tr []string) []string {
	out := make([]string, len(tr))
	for i, l := range tr {
		out[i] = condArgRe.ReplaceAllString(addrRe.ReplaceAllString(l, " a* "), "${1}*")
	}
	return out
}

func resultsDigest(r *Result) string {
	// stack traces and error texts carry addresses and goroutine numbers: not part of the comparison
	strip := func(prog []CallResult) []CallResult {
		out := make([]CallResult, len(prog))
		for i, c := range prog {
			out[i] = CallResult{Class: c.Class, Digest: c.Digest, ArgMod: c.ArgMod, MutDig: c.MutDig, EndDig: c.EndDig, MutWhat: c.MutWhat, LaterWhat: c.LaterWhat, W: c.W, H: c.H}
		}
		return out
	}
	rr := *r
	rr.Results = nil
	for _, ph := range r.Results {
		var p2 [][]CallResult
		for _, prog := range ph {
			p2 = append(p2, strip(prog))
		}
		rr.Results = append(rr.Results, p2)
	}
	rr.SharedRes = strip(r.SharedRes)
	r = &rr
	b, _ := json.Marshal(struct {
		V string
		R [][][]CallResult
		S []CallResult
		L int
	}{r.Verdict, r.Results, r.SharedRes, len(r.Leaks)})
	return string(b)
}

// selftestDeterminism: same scenario, same seed => same event log, across
// repeated runs, GOMAXPROCS values and the plain / race binaries.
func selftestDeterminism(nSeeds int) int {
	seed := seedFromEnv()
	fmt.Printf("VERIF_SEED=%d selftest=determinism seeds=%d\n", seed, nSeeds)
	b, err := NewBuild(repoRoot(), true)
	if err != nil {
		fmt.Fprintln(os.Stderr, "verifctl: cannot build:", err)
		return 2
	}
	defer b.Close()
	st := newStats()
	ex := newExecutor(b, 16, st)
	refs := newRefTable()
	cfg := cfgFor("C16", "quick")
	cfg.scenarios = nSeeds
	scs, _ := genC16(seed, cfg)
	c18 := cfgFor("C18", "quick")
	c18.scenarios = nSeeds / 4
	scs = append(scs, genC18(seed, c18)...)
	c15 := cfgFor("C15", "quick")
	c15.scenarios = nSeeds / 4
	s15, _ := genC15(seed, c15)
	scs = append(scs, s15...)
	ck := &Checker{prop: "C16", b: b, ex: ex, refs: refs, st: st, start: time.Now()}
	var all []*Call
	for _, sc := range scs {
		all = append(all, ck.callsOf(sc)...)
	}
	if err := ex.computeRefs(refs, all); err != nil {
		fmt.Fprintln(os.Stderr, "verifctl:", err)
		return 2
	}
	for _, sc := range scs {
		if sc.Property == "C16" {
			finishC16(sc, refs)
		}
	}
	type variant struct {
		race  bool
		procs int
		rep   int
	}
	var variants []variant
	for _, race := range []bool{false, true} {
		for _, p := range []int{1, 4, 16} {
			for rep := 0; rep < 2; rep++ {
				variants = append(variants, variant{race, p, rep})
			}
		}
	}
	type key struct{ sc, seg int }
	type obs struct {
		v     variant
		trace []string
		raw   []string
		hash  string
		res   string
		steps int
	}
	var mu sync.Mutex
	got := map[key][]obs{}
	var wg sync.WaitGroup
	runs := 0
	var herrs []string
	for si, sc := range scs {
		for gi := range sc.Segments {
			for _, v := range variants {
				si, gi, v := si, gi, v
				seg := sc.Segments[gi]
				seg.FullTrace = true
				if seg.StepCap == 0 || seg.StepCap > 3_000_000 {
					seg.StepCap = 3_000_000
				}
				wg.Add(1)
				go func() {
					defer wg.Done()
					ex.sem <- struct{}{}
					out := b.RunSegment(&seg, RunOpts{Race: v.race, GOMAXPROCS: v.procs, Timeout: 10 * time.Minute})
					<-ex.sem
					mu.Lock()
					defer mu.Unlock()
					runs++
					if out.Res == nil {
						herrs = append(herrs, fmt.Sprintf("scenario %d seg %d %+v: no result: %s", si, gi, v, tail(out.Stderr, 500)))
						return
					}
					got[key{si, gi}] = append(got[key{si, gi}], obs{v, maskTrace(out.Res.Trace), out.Res.Trace, out.Res.TraceHash, resultsDigest(out.Res), out.Res.Steps})
				}()
			}
		}
	}
	wg.Wait()
	if len(herrs) > 0 {
		for _, h := range herrs[:min(5, len(herrs))] {
			fmt.Fprintln(os.Stderr, h)
		}
		return 2
	}
	keys := make([]key, 0, len(got))
	for k := range got {
		keys = append(keys, k)
	}
	sort.Slice(keys, func(i, j int) bool {
		if keys[i].sc != keys[j].sc {
			return keys[i].sc < keys[j].sc
		}
		return keys[i].seg < keys[j].seg
	})
	div, addrDiv, totalSteps := 0, 0, 0
	for _, k := range keys {
		os := got[k]
		base := os[0]
		totalSteps += base.steps
		for _, o := range os[1:] {
			same := o.hash == base.hash && o.res == base.res && len(o.trace) == len(base.trace)
			if same {
				for i := range o.trace {
					if o.trace[i] != base.trace[i] {
						same = false
						break
					}
				}
			}
			if !same {
				div++
				if div <= 5 {
					fmt.Printf("DIVERGENCE scenario %d seg %d: %+v vs %+v: steps %d vs %d, results equal %v\n", k.sc, k.seg, base.v, o.v, base.steps, o.steps, o.res == base.res)
					for i := 0; i < len(o.trace) && i < len(base.trace); i++ {
						if o.trace[i] != base.trace[i] {
							fmt.Printf("  first differing event %d:\n    %s\n    %s\n", i, base.trace[i], o.trace[i])
							break
						}
					}
				}
				continue
			}
			for i := range o.raw {
				if o.raw[i] != base.raw[i] {
					addrDiv++
					break
				}
			}
		}
	}
	fmt.Printf("determinism: %d segments x %d variants (plain/race x GOMAXPROCS 1/4/16 x 2 repeats) = %d runs, %d events per variant set; event-log divergences: %d; runs differing only in address renaming: %d\n",
		len(keys), len(variants), runs, totalSteps, div, addrDiv)
	if div > 0 {
		fmt.Println("SELFTEST FAILED: the simulator is not deterministic")
		return 1
	}
	fmt.Println("SELFTEST OK")
	return 0
}

// selftestInstrumentedTests runs the repository's own tests on the
// instrumented copy (no simulator attached) and on /repo itself and requires
// the same set of passing tests.
func selftestInstrumentedTests() int {
	b, err := NewBuild(repoRoot(), false)
	if err != nil {
		fmt.Fprintln(os.Stderr, "verifctl: cannot build:", err)
		return 2
	}
	defer b.Close()
	run := func(dir string, gobin string) (map[string]string, error) {
		cmd := exec.Command(gobin, "test", "-json", "-vet=off", "-count=1", "./...")
		cmd.Dir = dir
		cmd.Env = goEnv()
		var out bytes.Buffer
		cmd.Stdout = &out
		cmd.Stderr = &out
		cmd.Run()
		res := map[string]string{}
		sc := bufio.NewScanner(&out)
		sc.Buffer(make([]byte, 1<<20), 1<<24)
		for sc.Scan() {
			var ev struct{ Action, Package, Test string }
			if json.Unmarshal(sc.Bytes(), &ev) != nil || ev.Test == "" || strings.Contains(ev.Package, "/zz_sim") {
				continue
			}
			if ev.Action == "pass" || ev.Action == "fail" || ev.Action == "skip" {
				res[ev.Package+"::"+ev.Test] = ev.Action
			}
		}
		return res, nil
	}
	orig, _ := run(repoRoot(), "go")
	inst, _ := run(b.RepoCopy, goBin)
	bad := 0
	np := 0
	for k, v := range orig {
		if v == "pass" {
			np++
		}
		if inst[k] != v {
			bad++
			fmt.Printf("DIFFERENT: %s original=%s instrumented=%s\n", k, v, inst[k])
		}
	}
	for k := range inst {
		if _, ok := orig[k]; !ok {
			bad++
			fmt.Printf("DIFFERENT: %s only in instrumented copy\n", k)
		}
	}
	fmt.Printf("instrumented-tests: %d tests in /repo (%d pass), %d in the instrumented copy, %d differences\n", len(orig), np, len(inst), bad)
	if bad > 0 || len(orig) == 0 {
		fmt.Println("SELFTEST FAILED")
		return 1
	}
	fmt.Println("SELFTEST OK")
	return 0
}

// selftestInstrumenter rewrites a synthetic module that uses every construct
// the instrumenter knows (and a few it must leave alone) and requires the
// result to compile and pass the module's own tests with no simulator attached.
func selftestInstrumenter() int {
	root := verifRoot()
	scratch, err := os.MkdirTemp("", "verif-synth.")
	if err != nil {
		fmt.Fprintln(os.Stderr, err)
		return 2
	}
	defer os.RemoveAll(scratch)
	env := append(goEnv(), "CGO_ENABLED=0")
	out, err := runCmd(root, env, root+"/bin/instrument", "-src", root+"/cmd/instrument/testdata/synth", "-dst", scratch+"/m", "-simrt", root+"/simrt", "-report", scratch+"/rep.json")
	if err != nil {
		fmt.Printf("instrument failed: %v\n%s\nSELFTEST FAILED\n", err, out)
		return 1
	}
	for _, args := range [][]string{{"test", "-count=1", "./..."}, {"test", "-race", "-count=1", "./..."}} {
		out, err = runCmd(scratch+"/m", goEnv(), goBin, args...)
		if err != nil {
			fmt.Printf("go %v on the instrumented synthetic module failed: %v\n%s\nSELFTEST FAILED\n", args, err, out)
			return 1
		}
	}
	rb, _ := os.ReadFile(scratch + "/rep.json")
	var rep InstrReport
	json.Unmarshal(rb, &rep)
	kinds := make([]string, 0, len(rep.Counts))
	for k := range rep.Counts {
		kinds = append(kinds, k)
	}
	sort.Strings(kinds)
	fmt.Printf("instrumenter: %d sites of %d kinds rewritten in the synthetic module, %d left alone (%v); tests pass plain and -race\nSELFTEST OK\n", len(rep.Sites)-1, len(kinds), len(rep.Uninstrumented), rep.Uninstrumented)
	return 0
}

// selftestSimConstructs puts the synthetic construct library into a copy of
// the repository (package <module>/zzsynth), instruments and builds it, and
// drives its functions from several simulated callers under every policy:
// select with done channels, labelled breaks, defer close, go with arguments,
// method values, WaitGroup fan-out, sync.Cond build-once, sync.Once, sync.Map,
// sync.Pool, atomics, RWMutex and promoted mutexes, map ranges. All of it is
// correct code: every call must equal its fresh-process reference, nothing may
// deadlock, leak or race, and repeated runs of one seed must give one event log.
func selftestSimConstructs(n int) int {
	seed := seedFromEnv()
	root := verifRoot()
	src, err := os.MkdirTemp("", "verif-synthsrc.")
	if err != nil {
		fmt.Fprintln(os.Stderr, err)
		return 2
	}
	defer os.RemoveAll(src)
	if out, err := runCmd(root, os.Environ(), "cp", "-r", repoRoot()+"/.", src+"/"); err != nil {
		fmt.Fprintln(os.Stderr, "copy:", err, out)
		return 2
	}
	os.RemoveAll(src + "/.git")
	os.MkdirAll(src+"/zzsynth", 0o755)
	lb, err := os.ReadFile(root + "/cmd/instrument/testdata/synth/lib/lib.go")
	if err != nil {
		fmt.Fprintln(os.Stderr, err)
		return 2
	}
	os.WriteFile(src+"/zzsynth/lib.go", lb, 0o644)
	b, err := NewBuildTags(src, true, "simnode,synth")
	if err != nil {
		fmt.Fprintln(os.Stderr, "verifctl: cannot build:", err)
		return 2
	}
	defer b.Close()
	st := newStats()
	ck := &Checker{prop: "C16", b: b, ex: newExecutor(b, 16, st), refs: newRefTable(), st: st, start: time.Now()}
	var scs []*Scenario
	for id := 0; id < n; id++ {
		r := &rng{s: mix(seed, 4242, uint64(id))}
		w := []int{1, 2, 3, 4, 8}[r.intn(5)]
		var conc [][]Call
		for wi := 0; wi < w; wi++ {
			var prog []Call
			for k := r.rangeIn(1, 4); k > 0; k-- {
				prog = append(prog, Call{Fn: "synth", I1: r.intn(12), I2: r.rangeIn(1, 9)})
			}
			conc = append(conc, prog)
		}
		seg := Segment{Kind: "calls", Seed: r.next(), MapMode: 4, Policy: genPolicy(r, 2000), StepCap: 3_000_000, Phases: [][][]Call{conc}}
		if r.chance(0.3) {
			seg.Stalls = []Stall{{G: r.rangeIn(1, 3*w), From: r.intn(300), Len: r.rangeIn(10, 2000)}}
		}
		scs = append(scs, &Scenario{ID: id, Seed: r.next(), Property: "C16", Race: id%3 == 0, Segments: []Segment{seg}})
	}
	var all []*Call
	for _, sc := range scs {
		all = append(all, ck.callsOf(sc)...)
	}
	if err := ck.ex.computeRefs(ck.refs, all); err != nil {
		fmt.Fprintln(os.Stderr, "verifctl:", err)
		return 2
	}
	// references: the shared counter makes case 7 history dependent on purpose? no: Shared.Inc() differs
	// with history, so case 7 is excluded from the equality oracle below
	fs, err := ck.explore(scs)
	if err != nil {
		fmt.Fprintln(os.Stderr, "verifctl: harness trouble:", err)
		return 2
	}
	bad := 0
	for _, f := range fs {
		c := f.sc.Segments[f.v.Seg].Phases[max(f.v.Phase, 0)][f.v.Worker][f.v.Call]
		if f.v.Class == "result-differs" && c.Fn == "synth" && c.I1 == 7 {
			continue // the contended counter is meant to differ
		}
		bad++
		if bad <= 5 {
			fmt.Printf("UNEXPECTED %s (call %s): %s\n%s\n", f.v.Class, describeCall(&c), f.v.Detail, head(f.v.Extra, 600))
		}
	}
	// determinism of a sample
	div := 0
	for i, sc := range scs {
		if i >= 12 {
			break
		}
		seg := sc.Segments[0]
		seg.FullTrace = true
		var base []string
		for rep, procs := range []int{1, 4, 16} {
			out := b.RunSegment(&seg, RunOpts{Race: rep == 1, GOMAXPROCS: procs})
			if out.Res == nil {
				fmt.Fprintln(os.Stderr, "no result:", tail(out.Stderr, 500))
				return 2
			}
			tr := maskTrace(out.Res.Trace)
			if base == nil {
				base = tr
				continue
			}
			if len(tr) != len(base) {
				div++
				continue
			}
			for k := range tr {
				if tr[k] != base[k] {
					div++
					if div <= 3 {
						lo := max(0, k-6)
						fmt.Printf("divergence scenario %d rep %d at event %d:\n  base: %v\n  this: %v\n", i, rep, k, base[lo:min(len(base), k+3)], tr[lo:min(len(tr), k+3)])
					}
					break
				}
			}
		}
	}
	fmt.Printf("sim-constructs: %d scenarios, %d segments, %d steps, %d sites hit of %d; unexpected verdicts: %d; replay divergences in 12x3 repeated runs: %d (select with several simultaneously ready cases would be the one legal source)\n",
		st.Scenarios, st.Segments, st.Steps, len(st.Sites), len(b.Report.Sites)-1, bad, div)
	if bad > 0 {
		fmt.Println("SELFTEST FAILED")
		return 1
	}
	fmt.Println("SELFTEST OK")
	return 0
}
