#!/bin/sh
# Build the framework from files on disk only (offline) and warm the go1.26.8
# build cache for std (plain and -race) so that checks do not pay for it.
set -eu
cd "$(dirname "$0")"
export GOFLAGS=-mod=mod GOPROXY=off GOSUMDB=off GOTOOLCHAIN=local
mkdir -p bin evidence replays
go1.26.8 build -o bin/instrument ./cmd/instrument
go1.26.8 build -o bin/verifctl ./cmd/verifctl
# warm caches: std for both modes (no-ops when already cached)
go1.26.8 build std >/dev/null 2>&1 || true
CGO_ENABLED=1 go1.26.8 build -race std >/dev/null 2>&1 || true
echo "setup ok"
