//go:build simnode

package zz_simnode

import (
	"encoding/json"
	"fmt"
	"os"
	"runtime"
	"runtime/pprof"
	"strconv"
	"sync/atomic"
	"testing"
	"time"
)

// TestNode executes one segment (= one process lifetime) and exits.
//
//	SIMNODE_SEGMENT  path of the segment JSON
//	SIMNODE_OUT      path the result JSON is written to
//	SIMNODE_HANG_S   seconds without a scheduler step before the node gives up (default 60)
func TestNode(t *testing.T) {
	segPath := os.Getenv("SIMNODE_SEGMENT")
	outPath = os.Getenv("SIMNODE_OUT")
	if segPath == "" || outPath == "" {
		t.Skip("not a node invocation")
	}
	b, err := os.ReadFile(segPath)
	if err != nil {
		fmt.Fprintln(os.Stderr, "simnode:", err)
		os.Exit(4)
	}
	var seg Segment
	if err := json.Unmarshal(b, &seg); err != nil {
		fmt.Fprintln(os.Stderr, "simnode:", err)
		os.Exit(4)
	}
	hangS := 60
	if v, err := strconv.Atoi(os.Getenv("SIMNODE_HANG_S")); err == nil && v > 0 {
		hangS = v
	}
	if seg.NoSim {
		res := &Result{Verdict: "done"}
		for _, ph := range seg.Phases {
			var pr [][]CallResult
			for _, prog := range ph {
				out := make([]CallResult, len(prog))
				for i := range prog {
					execCall(&prog[i], nil, nil, &out[i])
				}
				pr = append(pr, out)
			}
			res.Results = append(res.Results, pr)
		}
		writeResult(res)
		os.Exit(0)
	}
	// A goroutine the library starts from a package's init() is outside the simulation. Give it a
	// moment to reach the place where it waits, so that it does not run into a hook right when the
	// simulator attaches (the runtime would abort the process); it is reported as left running at the end.
	for _, d := range dumpAll() {
		if hasModuleFrame(d.body) {
			time.Sleep(80 * time.Millisecond)
			break
		}
	}
	if pf := os.Getenv("SIMNODE_CPUPROFILE"); pf != "" {
		if f, err := os.Create(pf); err == nil {
			pprof.StartCPUProfile(f)
			stopProfile = func() { pprof.StopCPUProfile(); f.Close() }
		}
	}
	var progress atomic.Int64
	// real-time watchdog, outside the bubble
	go func() {
		last := int64(-1)
		idle := 0
		for {
			time.Sleep(time.Second)
			cur := progress.Load()
			if cur != last {
				last, idle = cur, 0
				continue
			}
			idle++
			if idle >= hangS {
				buf := make([]byte, 1<<21)
				n := runtime.Stack(buf, true)
				writeResult(&Result{Verdict: "hang", Detail: fmt.Sprintf("no scheduler step for %d s", hangS), Steps: int(cur), Dump: string(buf[:n])})
				os.Exit(0)
			}
		}
	}()
	runCalls(t, &seg, &progress)
}
