//go:build simnode

package zz_simnode

import (
	"crypto/sha256"
	"encoding/binary"
	"encoding/hex"
	"encoding/json"
	"fmt"
	"hash"
	"hash/fnv"
	"os"
	"reflect"
	"runtime"
	"sort"
	"strconv"
	"strings"
	"sync/atomic"
	"testing"
	"testing/synctest"
	"time"

	barcode "MODULEPATH"
	"MODULEPATH/utils"
	rt "MODULEPATH/zz_simrt"
)

const modulePath = "MODULEPATH"

type splitmix struct{ s uint64 }

func (r *splitmix) next() uint64 {
	r.s += 0x9e3779b97f4a7c15
	z := r.s
	z = (z ^ (z >> 30)) * 0xbf58476d1ce4e5b9
	z = (z ^ (z >> 27)) * 0x94d049bb133111eb
	return z ^ (z >> 31)
}
func (r *splitmix) intn(n int) int {
	if n <= 1 {
		return 0
	}
	return int(r.next() % uint64(n))
}
func (r *splitmix) float() float64 { return float64(r.next()>>11) / float64(1<<53) }

func callKey(c *Call) string {
	b, _ := json.Marshal(c)
	return string(b)
}

type gor struct {
	id        int
	goid      uint64
	msg       *rt.Msg
	worker    bool
	phase     int
	widx      int
	done      bool
	signalled bool // cond waiter that has been woken
	prio      int64
	since     int   // step at which it last became runnable without being chosen (-1: not waiting)
	site      int32 // spawn site (children)
	role      string
	curCall   int
}

// chanSt is what the scheduler knows about a channel beyond what the channel
// itself tells (len, cap): whether it was closed through a hook, and whether
// instrumented code ever sends on / closes it (if not, its producer is outside
// the model: timers, contexts, ...).
type chanSt struct {
	ch       any // keeps the channel alive, so its address is never reused
	closed   bool
	internal bool
	capKnown bool
	cap      int
}

// lenCap: the capacity never changes, and an unbuffered channel is always empty.
func (c *chanSt) lenCap(ch any) (int, int) {
	if !c.capKnown {
		_, c.cap = chanLenCap(ch)
		c.capKnown = true
	}
	if c.cap == 0 {
		return 0, 0
	}
	n, _ := chanLenCap(ch)
	return n, c.cap
}

// timerSt: a timer channel fires when the bubble's fake clock reaches deadline.
type timerSt struct {
	deadline time.Time
	period   time.Duration
}

type lockSt struct {
	writer  int
	readers int
	opaque  bool
}

type sched struct {
	seg      *Segment
	q        chan rt.Msg
	rng      splitmix
	byGoid   map[uint64]*gor
	byTok    map[uint64]*gor
	gors     []*gor
	locks    map[uintptr]*lockSt
	conds    map[uintptr][]*gor // waiters per sync.Cond, in arrival order
	chans    map[uintptr]*chanSt
	waitRecv map[uintptr]map[*gor]bool // parked goroutines wanting to receive from a channel
	waitSend map[uintptr]map[*gor]bool
	timers   map[uintptr]*timerSt // timer channels announced by the time seams
	addrIdx  map[uintptr]int

	step        int
	last        *gor
	switches    int
	h           hash.Hash
	sig         hash.Hash64
	lockSig     hash.Hash64
	lockAcq     int
	trace       []string
	traceFull   bool
	choices     []int32
	mapPay      []uint64
	mapIdx      int
	sites       map[int32]int
	probes      map[string]int
	lockWaits   int
	stallsHit   int
	preempts    int
	mapRanges   int
	clockJumps  int
	timersSeen  int
	timerFires  int
	timerSleeps int
	foreign     int
	extClosed   int
	stuckAtEnd  bool
	pairs       int
	selects     int
	fallbacks   int
	aux         []uint32
	auxIdx      int
	fairKicks   int
	condWaits   int
	spawned     int
	stepCap     int
	pctPoints   []int
	pctNext     int
	progress    *atomic.Int64

	phaseWorkers []*gor
}

func newSched(seg *Segment, progress *atomic.Int64) *sched {
	s := &sched{
		seg:       seg,
		q:         make(chan rt.Msg, 1<<14),
		rng:       splitmix{s: seg.Seed*0x2545f4914f6cdd1d + 0x1234567},
		byGoid:    map[uint64]*gor{},
		byTok:     map[uint64]*gor{},
		locks:     map[uintptr]*lockSt{},
		conds:     map[uintptr][]*gor{},
		chans:     map[uintptr]*chanSt{},
		waitRecv:  map[uintptr]map[*gor]bool{},
		waitSend:  map[uintptr]map[*gor]bool{},
		timers:    map[uintptr]*timerSt{},
		addrIdx:   map[uintptr]int{},
		h:         sha256.New(),
		sig:       fnv.New64a(),
		lockSig:   fnv.New64a(),
		sites:     map[int32]int{},
		probes:    map[string]int{},
		stepCap:   seg.StepCap,
		progress:  progress,
		traceFull: seg.FullTrace,
	}
	if s.stepCap <= 0 {
		s.stepCap = 5_000_000
	}
	s.gors = append(s.gors, nil) // id 0 unused
	if seg.Policy.Name == "pct" && !seg.Replay {
		est := seg.Policy.Est
		if est < 10 {
			est = 10
		}
		for i := 0; i < seg.Policy.D; i++ {
			s.pctPoints = append(s.pctPoints, s.rng.intn(est))
		}
		sort.Ints(s.pctPoints)
	}
	return s
}

func (s *sched) newGor(worker bool) *gor {
	g := &gor{id: len(s.gors), worker: worker, since: -1}
	// pct: random initial priority above every demotion level
	g.prio = int64(1_000_000 + s.rng.intn(1_000_000_000))
	s.gors = append(s.gors, g)
	s.byTok[uint64(g.id)] = g
	return g
}

func (s *sched) aidx(a uintptr) int {
	if a == 0 {
		return 0
	}
	i, ok := s.addrIdx[a]
	if !ok {
		i = len(s.addrIdx) + 1
		s.addrIdx[a] = i
	}
	return i
}

func (s *sched) lock(a uintptr) *lockSt {
	l := s.locks[a]
	if l == nil {
		l = &lockSt{}
		s.locks[a] = l
	}
	return l
}

// drain takes every posted message off the queue and records the parks.
func (s *sched) drain() {
	var foreign []rt.Msg
	for {
		select {
		case m := <-s.q:
			if m.Kind == rt.KGone && s.byGoid[m.Goid] == nil {
				continue
			}
			if m.Kind != rt.KStart && s.byGoid[m.Goid] == nil {
				foreign = append(foreign, m) // first hook of a goroutine nobody announced (timer callback)
				continue
			}
			s.handle(m)
		default:
			// several such goroutines can start at the same fake instant and reach their first hook
			// in any order: register them in a canonical order (site, then the first-seen index of
			// the object they touch) so that their logical ids do not depend on arrival
			sort.SliceStable(foreign, func(i, j int) bool {
				if foreign[i].Site != foreign[j].Site {
					return foreign[i].Site < foreign[j].Site
				}
				return s.aidx(foreign[i].Addr) < s.aidx(foreign[j].Addr)
			})
			for _, m := range foreign {
				s.handle(m)
			}
			return
		}
	}
}

func (s *sched) handle(m rt.Msg) {
	var g *gor
	if m.Kind == rt.KStart {
		g = s.byTok[m.Arg]
		if g == nil {
			s.internal(fmt.Sprintf("start with unknown token %d (goid %d)", m.Arg, m.Goid))
		}
		delete(s.byTok, m.Arg)
		g.goid = m.Goid
		g.site = m.Site
		if !g.worker {
			g.role = "c" + strconv.Itoa(int(m.Site))
		}
		s.byGoid[m.Goid] = g
	} else {
		g = s.byGoid[m.Goid]
		if g == nil {
			// a goroutine the library did not start with a go statement (time.AfterFunc callback, ...)
			g = s.newGor(false)
			delete(s.byTok, uint64(g.id))
			g.goid = m.Goid
			g.site = m.Site
			g.role = "x" + strconv.Itoa(int(m.Site))
			s.byGoid[m.Goid] = g
			s.foreign++
		}
	}
	if m.Addr != 0 {
		s.aidx(m.Addr) // first-seen index at park time (one goroutine parks per step: deterministic)
	}
	switch m.Kind {
	case rt.KExit:
		g.done = true
		delete(s.byGoid, m.Goid)
		return
	case rt.KGone:
		delete(s.byGoid, m.Goid)
		return
	case rt.KUnlock:
		l := s.lock(m.Addr)
		l.writer = 0
	case rt.KRUnlock:
		l := s.lock(m.Addr)
		if l.readers > 0 {
			l.readers--
		}
	case rt.KLock:
		l := s.lock(m.Addr)
		switch m.Arg {
		case 1: // TryLock failed although the model said free: someone outside the model holds it
			if l.writer == g.id {
				l.writer = 0
			}
			l.opaque = true
		case 2: // successful TryLock
			l.writer = g.id
		default:
			if l.writer != 0 || l.readers != 0 {
				s.lockWaits++
			}
		}
	case rt.KRLock:
		l := s.lock(m.Addr)
		if m.Arg == 1 {
			if l.readers > 0 {
				l.readers--
			}
			l.opaque = true
		} else if l.writer != 0 {
			s.lockWaits++
		}
	case rt.KCallBegin:
		g.curCall = int(m.Arg)
	case rt.KCondWait:
		// the waiter has really released its lock just before parking
		s.lock(uintptr(m.Arg)).writer = 0
		g.signalled = false
		s.conds[m.Addr] = append(s.conds[m.Addr], g)
		s.condWaits++
	case rt.KCondSignal:
		if ws := s.conds[m.Addr]; len(ws) > 0 {
			ws[0].signalled = true
			s.conds[m.Addr] = ws[1:]
		}
	case rt.KCondBroadcast:
		for _, w := range s.conds[m.Addr] {
			w.signalled = true
		}
		s.conds[m.Addr] = nil
	case rt.KTimer:
		if m.Addr != 0 {
			s.chanOf(m.Addr, m.Ch).internal = true // modelled: never the blind fallback
			if m.Arg == 0 {
				delete(s.timers, m.Addr)
			} else {
				s.timers[m.Addr] = &timerSt{deadline: time.Unix(0, int64(m.Arg)), period: time.Duration(m.NCases)}
				s.timersSeen++
			}
		}
	}
	if m.Reply == nil {
		return
	}
	if g.msg != nil {
		s.internal(fmt.Sprintf("goroutine g%d parked twice (%v then %v)", g.id, g.msg.Kind, m.Kind))
	}
	mm := m
	g.msg = &mm
	s.index(g, g.msg, true)
}

func (s *sched) canRun(g *gor) bool {
	m := g.msg
	if m == nil {
		return false
	}
	switch m.Kind {
	case rt.KLock:
		if m.Arg == 2 {
			return true
		}
		l := s.lock(m.Addr)
		if l.opaque {
			return true
		}
		return l.writer == 0 && l.readers == 0
	case rt.KRLock:
		l := s.lock(m.Addr)
		if l.opaque {
			return true
		}
		return l.writer == 0
	case rt.KCondWait:
		return g.signalled
	case rt.KSendPre:
		ok, _ := s.sendReady(m.Addr, m.Ch, g)
		return ok
	case rt.KRecvPre:
		ok, _ := s.recvReady(m.Addr, m.Ch, g)
		return ok
	case rt.KSelectPre:
		if m.Deflt {
			return true
		}
		for i := 0; i < m.NCases; i++ {
			if ok, _ := s.caseReady(&m.Cases[i], g); ok {
				return true
			}
		}
		return false
	}
	return true
}

func (s *sched) chanOf(addr uintptr, ch any) *chanSt {
	c := s.chans[addr]
	if c == nil {
		c = &chanSt{ch: ch}
		s.chans[addr] = c
	}
	return c
}

// probeClosed: a non-blocking receive on an EMPTY channel that no instrumented
// code sends on. It cannot consume anything: nobody blocks inside a real send in
// this simulator, and external producers (timers) only deliver while the
// scheduler sleeps. A closed channel answers at once with ok == false.
func probeClosed(ch any) bool {
	v := reflect.ValueOf(ch)
	if v.Kind() != reflect.Chan || v.IsNil() || v.Type().ChanDir()&reflect.RecvDir == 0 || v.Len() != 0 {
		return false
	}
	_, ok, selected := recvNB(v)
	return selected && !ok
}

func recvNB(v reflect.Value) (reflect.Value, bool, bool) {
	chosen, x, ok := reflect.Select([]reflect.SelectCase{{Dir: reflect.SelectRecv, Chan: v}, {Dir: reflect.SelectDefault}})
	return x, ok, chosen == 0
}

func chanLenCap(ch any) (int, int) {
	v := reflect.ValueOf(ch)
	if v.Kind() != reflect.Chan || v.IsNil() {
		return 0, 0
	}
	return v.Len(), v.Cap()
}

// waiters returns the parked goroutines (other than except) that want to
// receive from (recv=true) or send on addr: plain operations and selects.
// Served from an index kept up to date on every park and release.
func (s *sched) waiters(addr uintptr, recv bool, except *gor) []*gor {
	idx := s.waitSend
	if recv {
		idx = s.waitRecv
	}
	m := idx[addr]
	if len(m) == 0 {
		return nil
	}
	ws := make([]*gor, 0, len(m))
	for g := range m {
		if g != except {
			ws = append(ws, g)
		}
	}
	sort.Slice(ws, func(i, j int) bool { return ws[i].id < ws[j].id })
	return ws
}

func (s *sched) hasWaiter(addr uintptr, recv bool, except *gor) bool {
	idx := s.waitSend
	if recv {
		idx = s.waitRecv
	}
	for g := range idx[addr] {
		if g != except {
			return true
		}
	}
	return false
}

func idxSet(idx map[uintptr]map[*gor]bool, addr uintptr, g *gor, on bool) {
	if addr == 0 {
		return
	}
	if on {
		m := idx[addr]
		if m == nil {
			m = map[*gor]bool{}
			idx[addr] = m
		}
		m[g] = true
		return
	}
	if m := idx[addr]; m != nil {
		delete(m, g)
	}
}

// index registers (on) or removes a parked goroutine's channel interests.
func (s *sched) index(g *gor, m *rt.Msg, on bool) {
	switch m.Kind {
	case rt.KRecvPre:
		idxSet(s.waitRecv, m.Addr, g, on)
	case rt.KSendPre:
		idxSet(s.waitSend, m.Addr, g, on)
	case rt.KSelectPre:
		for i := 0; i < m.NCases; i++ {
			c := &m.Cases[i]
			if c.Send {
				idxSet(s.waitSend, c.Addr, g, on)
			} else {
				idxSet(s.waitRecv, c.Addr, g, on)
			}
		}
	}
}

// sendReady: can a send on the channel proceed without blocking, and does it
// need a receiving partner released together with it?
func (s *sched) sendReady(addr uintptr, ch any, g *gor) (ready, partner bool) {
	if addr == 0 {
		return false, false // nil channel: blocks forever
	}
	c := s.chanOf(addr, ch)
	if c.closed {
		return true, false // will panic, as it must
	}
	n, cp := c.lenCap(ch)
	if n < cp {
		return true, false
	}
	if cp == 0 && s.hasWaiter(addr, true, g) {
		return true, true
	}
	return false, false
}

func (s *sched) recvReady(addr uintptr, ch any, g *gor) (ready, partner bool) {
	if addr == 0 {
		return false, false
	}
	c := s.chanOf(addr, ch)
	if t := s.timers[addr]; t != nil {
		return !time.Now().Before(t.deadline), false
	}
	n, cp := c.lenCap(ch)
	if n > 0 {
		return true, false
	}
	if !c.closed && !c.internal && probeClosed(ch) {
		// closed from outside the model (context cancellation, stdlib)
		c.closed = true
		s.extClosed++
	}
	if c.closed {
		return true, false
	}
	if cp == 0 && s.hasWaiter(addr, false, g) {
		return true, true
	}
	return false, false
}

func (s *sched) caseReady(c *rt.SelCase, g *gor) (bool, bool) {
	if c.Send {
		return s.sendReady(c.Addr, c.Ch, g)
	}
	return s.recvReady(c.Addr, c.Ch, g)
}

func (s *sched) stalled(g *gor) bool {
	for _, st := range s.seg.Stalls {
		if st.G == g.id && s.step >= st.From && s.step < st.From+st.Len {
			return true
		}
	}
	return false
}

// runnable returns parked goroutines that may proceed, sorted by logical id.
func (s *sched) runnable() []*gor {
	var r []*gor
	for _, g := range s.gors[1:] {
		if g.msg != nil && s.canRun(g) {
			r = append(r, g)
		}
	}
	return r
}

func (s *sched) anyParked() bool {
	for _, g := range s.gors[1:] {
		if g.msg != nil {
			return true
		}
	}
	return false
}

// fairBound: no policy may ignore a continuously runnable goroutine for more
// than this many steps (weak fairness). Without it a legal spin-wait on an
// atomic would never end under run-to-block or priority policies.
const fairBound = 100_000

func (s *sched) pick(run []*gor) *gor {
	g := s.pick0(run)
	if !s.seg.Replay {
		// weak fairness
		var starved *gor
		for _, x := range run {
			if x.since < 0 {
				x.since = s.step
			}
			if x != g && s.step-x.since > fairBound && (starved == nil || x.since < starved.since) {
				starved = x
			}
		}
		if starved != nil {
			s.fairKicks++
			g = starved
		}
	}
	g.since = -1
	return g
}

func (s *sched) pick0(run []*gor) *gor {
	// explicit replay
	if s.seg.Replay {
		idx := 0
		if s.step < len(s.seg.Choices) {
			idx = int(s.seg.Choices[s.step])
			if idx < 0 {
				idx = 0
			}
			idx %= len(run)
		} else {
			// beyond the recorded prefix: keep running the same goroutine, else lowest id
			for i, g := range run {
				if g == s.last {
					idx = i
				}
			}
		}
		return run[idx]
	}
	cand := run
	if len(s.seg.Stalls) > 0 {
		var c2 []*gor
		for _, g := range run {
			if !s.stalled(g) {
				c2 = append(c2, g)
			}
		}
		if len(c2) > 0 && len(c2) < len(run) {
			s.stallsHit++
			cand = c2
		}
	}
	lastIn := -1
	for i, g := range cand {
		if g == s.last {
			lastIn = i
		}
	}
	switch s.seg.Policy.Name {
	case "uniform":
		return cand[s.rng.intn(len(cand))]
	case "sticky":
		if lastIn >= 0 && len(cand) > 1 {
			if s.rng.float() >= s.seg.Policy.P {
				return cand[lastIn]
			}
			s.preempts++
			// preempt: anyone but the last
			k := s.rng.intn(len(cand) - 1)
			if k >= lastIn {
				k++
			}
			return cand[k]
		}
		if lastIn >= 0 {
			return cand[lastIn]
		}
		return cand[s.rng.intn(len(cand))]
	case "pct":
		best := cand[0]
		for _, g := range cand[1:] {
			if g.prio > best.prio {
				best = g
			}
		}
		for s.pctNext < len(s.pctPoints) && s.pctPoints[s.pctNext] <= s.step {
			// demote whoever would run now
			best.prio = int64(len(s.pctPoints) - s.pctNext)
			s.pctNext++
			s.preempts++
			best = cand[0]
			for _, g := range cand[1:] {
				if g.prio > best.prio {
					best = g
				}
			}
		}
		return best
	default: // fifo: run to block, then lowest id
		if lastIn >= 0 {
			return cand[lastIn]
		}
		return cand[0]
	}
}

// timerTaken: a receive on a timer channel is being released: a one-shot timer
// is spent, a ticker moves to its next tick after now.
func (s *sched) timerTaken(addr uintptr) {
	t := s.timers[addr]
	if t == nil {
		return
	}
	s.timerFires++
	if t.period <= 0 {
		delete(s.timers, addr)
		return
	}
	now := time.Now()
	for !t.deadline.After(now) {
		t.deadline = t.deadline.Add(t.period)
	}
}

// nextTimer returns the earliest pending deadline of a timer some parked goroutine waits for.
func (s *sched) nextTimer() (time.Time, bool) {
	var best time.Time
	found := false
	for addr, t := range s.timers {
		if len(s.waitRecv[addr]) == 0 {
			continue
		}
		if !found || t.deadline.Before(best) {
			best, found = t.deadline, true
		}
	}
	return best, found
}

// draw makes an auxiliary seeded choice (rendezvous partner, select clause):
// recorded so that an explicit replay repeats it.
func (s *sched) draw(n int) int {
	k := 0
	if s.seg.Replay {
		if s.auxIdx < len(s.seg.Aux) {
			k = int(s.seg.Aux[s.auxIdx])
		}
		s.auxIdx++
		if n > 0 {
			k %= n
		}
	} else {
		k = s.rng.intn(n)
	}
	if s.seg.Record {
		s.aux = append(s.aux, uint32(k))
	}
	return k
}

// partnerFor picks the goroutine that completes a rendezvous with g on addr
// and the payload that goroutine must be released with.
func (s *sched) partnerFor(g *gor, addr uintptr, wantRecv bool) (*gor, uint64) {
	ws := s.waiters(addr, wantRecv, g)
	if len(ws) == 0 {
		return nil, 0
	}
	p := ws[s.draw(len(ws))]
	var pay uint64
	if p.msg.Kind == rt.KSelectPre {
		for i := 0; i < p.msg.NCases; i++ {
			c := &p.msg.Cases[i]
			if c.Addr == addr && c.Send == !wantRecv {
				pay = uint64(i)
				break
			}
		}
	}
	return p, pay
}

func (s *sched) release(g *gor, run []*gor) {
	m := g.msg
	var partner *gor
	var partnerPay uint64
	var payload uint64
	switch m.Kind {
	case rt.KSendPre:
		s.chanOf(m.Addr, m.Ch).internal = true
		if _, need := s.sendReady(m.Addr, m.Ch, g); need {
			partner, partnerPay = s.partnerFor(g, m.Addr, true)
		}
	case rt.KRecvPre:
		if _, need := s.recvReady(m.Addr, m.Ch, g); need {
			partner, partnerPay = s.partnerFor(g, m.Addr, false)
		}
		s.timerTaken(m.Addr)
	case rt.KClosePre:
		if m.Addr != 0 {
			c := s.chanOf(m.Addr, m.Ch)
			c.closed = true
			c.internal = true
		}
	case rt.KSelectPre:
		var ready []int
		var needs []bool
		for i := 0; i < m.NCases; i++ {
			if m.Cases[i].Send && m.Cases[i].Addr != 0 {
				s.chanOf(m.Cases[i].Addr, m.Cases[i].Ch).internal = true
			}
			if ok, need := s.caseReady(&m.Cases[i], g); ok {
				ready = append(ready, i)
				needs = append(needs, need)
			}
		}
		if len(ready) == 0 {
			payload = ^uint64(0) // -1: default
		} else {
			k := s.draw(len(ready))
			payload = uint64(ready[k])
			if needs[k] {
				c := &m.Cases[ready[k]]
				partner, partnerPay = s.partnerFor(g, c.Addr, c.Send)
			}
			if c := &m.Cases[ready[k]]; !c.Send {
				s.timerTaken(c.Addr)
			}
			s.selects++
		}
	}
	s.index(g, m, false)
	g.msg = nil
	switch m.Kind {
	case rt.KSpawn:
		c := s.newGor(false)
		s.spawned++
		payload = uint64(c.id)
	case rt.KCallBegin:
		// clock jump fault: derived from (seed, goroutine, call), not from the schedule PRNG,
		// so that it replays under an explicit schedule as well
		if s.seg.JumpPct > 0 {
			x := splitmix{s: s.seg.Seed ^ uint64(g.id)<<32 ^ m.Arg*0x9e3779b97f4a7c15}
			if int(x.next()%100) < s.seg.JumpPct {
				d := time.Duration(x.next() % uint64(72*time.Hour))
				if x.next()%4 == 0 {
					d = time.Duration(x.next() % uint64(40*24*time.Hour))
				}
				time.Sleep(d) // every other bubble goroutine is durably blocked: time advances at once
				s.clockJumps++
			}
		}
	case rt.KLock:
		if m.Arg != 2 {
			s.lock(m.Addr).writer = g.id
		}
		// order in which callers obtained the locks (a coarse measure of distinct cache-growth orders)
		s.lockSig.Write([]byte(g.role))
		s.lockSig.Write([]byte{';'})
		s.lockAcq++
	case rt.KRLock:
		s.lock(m.Addr).readers++
	case rt.KMapRange:
		s.mapRanges++
		if s.seg.Replay {
			if s.mapIdx < len(s.seg.MapPay) {
				payload = s.seg.MapPay[s.mapIdx]
			}
			s.mapIdx++
		} else {
			mode := uint64(s.seg.MapMode)
			if mode >= 4 {
				mode = uint64(s.rng.intn(4))
			}
			payload = mode<<56 | (s.rng.next() & (1<<56 - 1))
		}
		if s.seg.Record {
			s.mapPay = append(s.mapPay, payload)
		}
	}
	// bookkeeping
	if s.seg.Record {
		idx := 0
		for i, x := range run {
			if x == g {
				idx = i
			}
		}
		s.choices = append(s.choices, int32(idx))
	}
	var rec [16]byte
	binary.LittleEndian.PutUint32(rec[0:], uint32(g.id))
	rec[4] = byte(m.Kind)
	binary.LittleEndian.PutUint32(rec[8:], uint32(m.Site))
	s.h.Write(rec[:])
	if g != s.last {
		if s.last != nil {
			s.switches++
		}
		s.sig.Write([]byte(g.role))
		s.sig.Write([]byte{'@'})
		s.sig.Write(strconv.AppendInt(nil, int64(m.Site), 10))
		s.sig.Write([]byte{';'})
	}
	s.sites[m.Site]++
	// no fmt here: fmt's sync.Pool would create happens-before edges between the
	// scheduler and the workers (or, with sync events ignored, false race reports)
	lb := make([]byte, 0, 64)
	lb = strconv.AppendInt(lb, int64(s.step), 10)
	lb = append(lb, " g"...)
	lb = strconv.AppendInt(lb, int64(g.id), 10)
	lb = append(lb, '(')
	lb = append(lb, g.role...)
	lb = append(lb, ") "...)
	lb = append(lb, m.Kind.String()...)
	lb = append(lb, " s"...)
	lb = strconv.AppendInt(lb, int64(m.Site), 10)
	lb = append(lb, " a"...)
	lb = strconv.AppendInt(lb, int64(s.aidx(m.Addr)), 10)
	lb = append(lb, " x"...)
	if m.Kind == rt.KCondWait {
		lb = strconv.AppendUint(lb, uint64(s.aidx(uintptr(m.Arg))), 10) // Arg is the lock's address
	} else {
		lb = strconv.AppendUint(lb, m.Arg, 10)
	}
	line := string(lb)
	if s.traceFull {
		s.trace = append(s.trace, line)
	} else {
		if len(s.trace) >= 400 {
			s.trace = append(s.trace[:0], s.trace[200:]...)
		}
		s.trace = append(s.trace, line)
	}
	s.last = g
	s.step++
	s.progress.Add(1)
	m.Reply <- payload
	if partner != nil && partner.msg != nil {
		// the other party of the rendezvous goes at once: neither side ever blocks in the real operation
		s.pairs++
		pm := partner.msg
		if pm.Kind == rt.KSelectPre {
			// its select takes exactly the clause that matches
		}
		s.releasePaired(partner, partnerPay)
	}
}

// releasePaired releases the second party of a rendezvous with a fixed payload.
func (s *sched) releasePaired(g *gor, payload uint64) {
	m := g.msg
	s.index(g, m, false)
	g.msg = nil
	if m.Kind == rt.KSendPre {
		s.chanOf(m.Addr, m.Ch).internal = true
	}
	if s.seg.Record {
		s.choices = append(s.choices, 0)
	}
	var rec [16]byte
	binary.LittleEndian.PutUint32(rec[0:], uint32(g.id))
	rec[4] = byte(m.Kind)
	rec[5] = 1
	binary.LittleEndian.PutUint32(rec[8:], uint32(m.Site))
	s.h.Write(rec[:])
	if g != s.last && s.last != nil {
		s.switches++
	}
	s.sites[m.Site]++
	lb := make([]byte, 0, 64)
	lb = strconv.AppendInt(lb, int64(s.step), 10)
	lb = append(lb, " g"...)
	lb = strconv.AppendInt(lb, int64(g.id), 10)
	lb = append(lb, '(')
	lb = append(lb, g.role...)
	lb = append(lb, ") "...)
	lb = append(lb, m.Kind.String()...)
	lb = append(lb, "+paired s"...)
	lb = strconv.AppendInt(lb, int64(m.Site), 10)
	lb = append(lb, " a"...)
	lb = strconv.AppendInt(lb, int64(s.aidx(m.Addr)), 10)
	lb = append(lb, " x"...)
	lb = strconv.AppendUint(lb, payload, 10)
	line := string(lb)
	if s.traceFull {
		s.trace = append(s.trace, line)
	} else {
		if len(s.trace) >= 400 {
			s.trace = append(s.trace[:0], s.trace[200:]...)
		}
		s.trace = append(s.trace, line)
	}
	g.since = -1
	s.last = g
	s.step++
	s.progress.Add(1)
	m.Reply <- payload
}

type stopReason string

// loop schedules until cond() holds at a quiescent point. Returns "" on
// success, or "deadlock"/"stepcap".
func (s *sched) loop(cond func() bool) stopReason {
	for {
		synctest.Wait()
		s.drain()
		if cond() {
			return ""
		}
		run := s.runnable()
		if len(run) == 0 {
			// somebody waits for a timer: let the fake clock reach it
			if dl, ok := s.nextTimer(); ok {
				if d := time.Until(dl); d > 0 {
					time.Sleep(d)
					s.timerSleeps++
					continue
				}
			}
		}
		if len(run) > 0 && s.seg.MidJumpPPM > 0 {
			// clock jump in the middle of calls: everybody is parked, so the fake clock just moves; a
			// goroutine that was about to run finds that seconds have passed (a stalled consumer, a GC pause)
			x := splitmix{s: s.seg.Seed ^ uint64(s.step)*0xd1342543de82ef95 ^ 0x4a}
			if int(x.next()%1_000_000) < s.seg.MidJumpPPM {
				d := time.Duration(1+x.next()%10_000) * time.Millisecond
				time.Sleep(d)
				s.clockJumps++
				run = s.runnable() // timers may have become due
			}
		}
		if len(run) == 0 && s.fallback() {
			continue
		}
		if len(run) == 0 {
			// maybe someone sleeps on the bubble's fake clock
			woke := false
			d := time.Microsecond
			for i := 0; i < 50 && !woke; i++ {
				time.Sleep(d)
				d *= 2
				synctest.Wait()
				s.drain()
				if cond() {
					return ""
				}
				if len(s.runnable()) > 0 {
					woke = true
				}
			}
			if !woke {
				return "deadlock"
			}
			continue
		}
		if s.step >= s.stepCap {
			return "stepcap"
		}
		s.release(s.pick(run), run)
	}
}

// fallback: nothing can run according to the model. A goroutine waiting on a
// channel that no instrumented code ever sends on or closes (a timer's
// channel, a context's Done channel, ...) is let into the real operation: if
// the channel is fed from outside the model it completes, otherwise the
// goroutine blocks there durably and the verdict is reached without it.
func (s *sched) fallback() bool {
	for _, g := range s.gors[1:] {
		m := g.msg
		if m == nil {
			continue
		}
		if m.Kind == rt.KSelectPre {
			// a select with a receive clause on a channel fed from outside the model (time.After,
			// ctx.Done()): run it as written; it blocks durably until the outside world delivers
			ext := false
			for i := 0; i < m.NCases; i++ {
				c := &m.Cases[i]
				if !c.Send && c.Addr != 0 && !s.chanOf(c.Addr, c.Ch).internal {
					ext = true
				}
			}
			if ext {
				s.fallbacks++
				s.releasePaired(g, ^uint64(1)) // -2: nothing is disabled
				return true
			}
			continue
		}
		if (m.Kind != rt.KRecvPre && m.Kind != rt.KSendPre) || m.Addr == 0 {
			continue
		}
		if s.chanOf(m.Addr, m.Ch).internal {
			continue
		}
		s.fallbacks++
		s.releasePaired(g, 0)
		return true
	}
	return false
}

var outPath string

func (s *sched) internal(msg string) {
	res := &Result{Verdict: "internal", Detail: msg, Steps: s.step, Trace: s.trace}
	buf := make([]byte, 1<<20)
	res.Dump = string(buf[:runtime.Stack(buf, true)])
	writeResult(res)
	os.Exit(0)
}

// stopProfile is set when SIMNODE_CPUPROFILE asked for a CPU profile (debugging aid).
var stopProfile func()

func writeResult(r *Result) {
	if stopProfile != nil {
		stopProfile()
	}
	b, err := json.Marshal(r)
	if err != nil {
		fmt.Fprintln(os.Stderr, "simnode: marshal:", err)
		os.Exit(4)
	}
	tmp := outPath + ".tmp"
	if err := os.WriteFile(tmp, b, 0o644); err != nil {
		fmt.Fprintln(os.Stderr, "simnode:", err)
		os.Exit(4)
	}
	os.Rename(tmp, outPath)
}

// goroutine dump parsing ------------------------------------------------

type gdump struct {
	header string
	goid   uint64
	body   string
}

func dumpAll() []gdump {
	buf := make([]byte, 1<<22)
	n := runtime.Stack(buf, true)
	var out []gdump
	for _, blk := range strings.Split(string(buf[:n]), "\n\n") {
		blk = strings.TrimSpace(blk)
		if !strings.HasPrefix(blk, "goroutine ") {
			continue
		}
		nl := strings.IndexByte(blk, '\n')
		hdr := blk
		body := ""
		if nl >= 0 {
			hdr, body = blk[:nl], blk[nl+1:]
		}
		var id uint64
		fmt.Sscanf(hdr, "goroutine %d ", &id)
		out = append(out, gdump{hdr, id, body})
	}
	return out
}

func hasModuleFrame(body string) bool {
	for _, ln := range strings.Split(body, "\n") {
		i := strings.Index(ln, modulePath)
		if i < 0 || strings.HasPrefix(ln, "\t") {
			continue
		}
		rest := ln[i+len(modulePath):]
		if strings.HasPrefix(rest, "/zz_sim") {
			continue
		}
		if strings.HasPrefix(rest, "/") || strings.HasPrefix(rest, ".") {
			return true
		}
	}
	return false
}

func isSynctestInfra(body string) bool {
	return strings.Contains(body, "testing/synctest.testingSynctestTest") || strings.Contains(body, "internal/synctest.Run(")
}

// -----------------------------------------------------------------------

func (s *sched) fill(res *Result) {
	res.Steps = s.step
	res.Switches = s.switches
	res.TraceHash = hex.EncodeToString(s.h.Sum(nil)[:12])
	res.SwitchSig = fmt.Sprintf("%016x", s.sig.Sum64())
	if s.lockAcq > 0 {
		res.LockSig = fmt.Sprintf("%016x", s.lockSig.Sum64())
	}
	res.Trace = s.trace
	res.Choices = s.choices
	res.MapPay = s.mapPay
	res.Goroutines = len(s.gors) - 1
	res.Spawned = s.spawned
	res.LockWaits = s.lockWaits
	res.StallsFired = s.stallsHit
	res.Preempts = s.preempts
	res.MapRanges = s.mapRanges
	res.ClockJumps = s.clockJumps
	res.Timers = s.timersSeen
	res.TimerFires = s.timerFires
	res.Pairs = s.pairs
	res.Selects = s.selects
	res.Fallbacks = s.fallbacks
	res.Aux = s.aux
	res.FairKicks = s.fairKicks
	res.Sites = map[string]int{}
	for id, n := range s.sites {
		lbl := fmt.Sprintf("site%d", id)
		if int(id) < len(rt.Sites) {
			lbl = rt.Sites[id]
		}
		res.Sites[lbl] += n
	}
	res.Probes = s.probes
	res.RaceBuild = rt.RaceBuild
}

func runCalls(t *testing.T, seg *Segment, progress *atomic.Int64) {
	res := &Result{}
	e := &env{shared: map[string]barcode.Barcode{}, rs: map[[3]int][]*utils.ReedSolomonEncoder{}}
	// shared RS encoders: created before any simulated goroutine exists
	phases := seg.Phases
	for _, ph := range phases {
		for _, prog := range ph {
			for i := range prog {
				c := &prog[i]
				if c.Fn == "rs" && c.H > 0 {
					for len(e.rs[c.GF]) < c.H {
						e.rs[c.GF] = append(e.rs[c.GF], utils.NewReedSolomonEncoder(utils.NewGaloisField(c.GF[0], c.GF[1], c.GF[2])))
					}
				}
			}
		}
	}
	// phase 0 (optional): build shared barcodes with a single worker
	type prog struct {
		calls []Call
		out   []CallResult
		setup bool
	}
	var all [][]*prog
	if len(seg.Shared) > 0 {
		p := &prog{calls: seg.Shared, out: make([]CallResult, len(seg.Shared)), setup: true}
		all = append(all, []*prog{p})
	}
	for _, ph := range phases {
		var ps []*prog
		for _, calls := range ph {
			ps = append(ps, &prog{calls: calls, out: make([]CallResult, len(calls))})
		}
		all = append(all, ps)
	}
	for _, ps := range all {
		for _, p := range ps {
			for i := range p.out {
				p.out[i].Class = "notrun"
			}
		}
	}

	races0 := rt.RaceErrors()
	var reason stopReason
	var s *sched
	var leaks []Leak
	var dump string

	body := func(t *testing.T) {
		s = newSched(seg, progress)
		bubbleT0 := time.Now() // fake clock: 2000-01-01 at bubble start
		rt.Attach(&rt.Sim{Q: s.q})
		if seg.ClockNs > 0 {
			time.Sleep(time.Duration(seg.ClockNs))
		}
		self := rt.RealGoid()
		for pi, ps := range all {
			doneCh := make(chan int, len(ps))
			s.phaseWorkers = s.phaseWorkers[:0]
			for wi, p := range ps {
				g := s.newGor(true)
				g.phase, g.widx = pi, wi
				g.role = "w" + strconv.Itoa(pi) + "." + strconv.Itoa(wi)
				s.phaseWorkers = append(s.phaseWorkers, g)
				tok := uint64(g.id)
				p := p
				go func() {
					rt.Start(tok, 0)
					var keep []retained
					for i := range p.calls {
						if seg.GCPct > 0 {
							x := splitmix{s: seg.Seed ^ uint64(tok)<<20 ^ uint64(i)*0x9e3779b97f4a7c15 ^ 0x6c}
							if int(x.next()%100) < seg.GCPct {
								runtime.GC() // whatever only lives in weak caches or finalizers goes now
							}
						}
						rt.Park(rt.KCallBegin, 0, uint64(i))
						if p.setup {
							// build and publish a shared barcode
							c := &p.calls[i]
							func() {
								defer func() {
									if r := recover(); r != nil {
										p.out[i].Class = "panic"
										p.out[i].Panic = fmt.Sprint(r)
									}
								}()
								bc, err := encodeCall(c, nil, append([]byte(nil), c.B...))
								if err != nil || bc == nil {
									p.out[i].Class = "err"
									return
								}
								e.shared[callKey(c)] = bc
								p.out[i].Class = "ok"
								p.out[i].Digest = observe(bc).digest()
							}()
						} else {
							execCall(&p.calls[i], e, &keep, &p.out[i])
						}
						rt.Park(rt.KCallEnd, 0, uint64(i))
					}
					finishProgram(keep)
					doneCh <- wi
					rt.Post(rt.KExit, 0, 0)
				}()
			}
			rt.RaceDisable()
			ws := append([]*gor(nil), s.phaseWorkers...)
			reason = s.loop(func() bool {
				for _, g := range ws {
					if !g.done {
						return false
					}
				}
				return true
			})
			rt.RaceEnable()
			if reason != "" {
				// join the workers that did finish, so that reading their result slots is ordered
				for _, g := range ws {
					if g.done {
						<-doneCh
					}
				}
				break
			}
			// join: genuine happens-before from this phase's workers to whatever follows
			for range ps {
				<-doneCh
			}
		}
		if reason == "" {
			// let library goroutines that only need CPU finish
			rt.RaceDisable()
			reason = s.loop(func() bool { return !s.anyParked() })
			rt.RaceEnable()
			if reason == "deadlock" {
				// every call has returned; goroutines that can never run again (waiting for a partner,
				// a lock or a signal that will not come) are what the leak check below reports
				reason = ""
				s.stuckAtEnd = true
			}
		}
		// who is still there?
		for _, d := range dumpAll() {
			if d.goid == self || isSynctestInfra(d.body) {
				continue
			}
			if !strings.Contains(d.header, "synctest bubble") {
				// outside the simulation: only of interest if the library started it (a goroutine
				// launched from a package's init() that lives for ever)
				if hasModuleFrame(d.body) {
					leaks = append(leaks, Leak{Header: d.header + " (outside the simulation: started during package initialisation)", Stack: d.body, Module: true})
				}
				continue
			}
			leaks = append(leaks, Leak{Header: d.header, Stack: d.body, Module: hasModuleFrame(d.body)})
		}
		if reason != "" {
			buf := make([]byte, 1<<21)
			dump = string(buf[:runtime.Stack(buf, true)])
		}
		// report from inside the bubble and leave: the process is the unit of isolation
		res.Verdict = "done"
		if reason != "" {
			res.Verdict = string(reason)
			res.Dump = dump
			// only results of finished workers are safe to read
		}
		s.fill(res)
		res.SimNs = int64(time.Since(bubbleT0))
		if reason == "" {
			res.Leaks = leaks
		} else {
			// on deadlock every bubble goroutine is "left": report them as context only
			res.Leaks = nil
		}
		res.Races = rt.RaceErrors() - races0
		off := 0
		if len(seg.Shared) > 0 {
			off = 1
			if reason == "" {
				res.SharedRes = all[0][0].out
			}
		}
		for pi := off; pi < len(all); pi++ {
			var pr [][]CallResult
			for wi, p := range all[pi] {
				fin := reason == ""
				if !fin {
					// a worker's slots are readable only if it has finished (its KExit was seen)
					for _, g := range s.gors[1:] {
						if g.worker && g.phase == pi && g.widx == wi && g.done {
							fin = true
						}
					}
				}
				if fin {
					pr = append(pr, p.out)
				} else {
					blank := make([]CallResult, len(p.out))
					for i := range blank {
						blank[i].Class = "notrun"
					}
					pr = append(pr, blank)
				}
			}
			res.Results = append(res.Results, pr)
		}
		writeResult(res)
		os.Exit(0)
	}
	synctest.Test(t, body)
}
