//go:build simnode

package zz_simnode

import (
	"bytes"
	"crypto/sha256"
	"encoding/binary"
	"encoding/hex"
	"errors"
	"fmt"
	"image/color"
	"reflect"
	"runtime/debug"
	"strconv"
	"strings"

	barcode "MODULEPATH"
	"MODULEPATH/aztec"
	"MODULEPATH/codabar"
	"MODULEPATH/code128"
	"MODULEPATH/code39"
	"MODULEPATH/code93"
	"MODULEPATH/datamatrix"
	"MODULEPATH/ean"
	"MODULEPATH/pdf417"
	"MODULEPATH/qr"
	"MODULEPATH/twooffive"
	"MODULEPATH/utils"
)

// ---- observing a barcode -------------------------------------------------

func modelName(m color.Model) string {
	switch m {
	case color.GrayModel:
		return "Gray"
	case color.Gray16Model:
		return "Gray16"
	case color.RGBAModel:
		return "RGBA"
	case color.RGBA64Model:
		return "RGBA64"
	case color.NRGBAModel:
		return "NRGBA"
	case color.NRGBA64Model:
		return "NRGBA64"
	case color.AlphaModel:
		return "Alpha"
	case color.Alpha16Model:
		return "Alpha16"
	case color.CMYKModel:
		return "CMYK"
	case color.YCbCrModel:
		return "YCbCr"
	case nil:
		return "nil"
	}
	return reflect.TypeOf(m).String()
}

// no fmt in the observation path: fmt recycles printers through a sync.Pool,
// which would add harness-made happens-before edges between callers and blunt
// the race detector.
func utoa(v uint32) string { return strconv.FormatUint(uint64(v), 10) }

func colorStr(c color.Color) string {
	if c == nil {
		return "nil"
	}
	r, g, b, a := c.RGBA()
	return reflect.TypeOf(c).String() + "(" + utoa(r) + "," + utoa(g) + "," + utoa(b) + "," + utoa(a) + ")"
}

// observation is the accessor-for-accessor, pixel-for-pixel view of a barcode.
type observation struct {
	pix     string // hash over bounds + every pixel
	content string
	meta    string
	model   string
	scheme  string
	cs      string
}

func observe(bc barcode.Barcode) observation {
	var o observation
	h := sha256.New()
	b := bc.Bounds()
	var w [8]byte
	for _, v := range []int{b.Min.X, b.Min.Y, b.Max.X, b.Max.Y} {
		binary.LittleEndian.PutUint64(w[:], uint64(int64(v)))
		h.Write(w[:])
	}
	for y := b.Min.Y; y < b.Max.Y; y++ {
		for x := b.Min.X; x < b.Max.X; x++ {
			r, g, bb, a := bc.At(x, y).RGBA()
			binary.LittleEndian.PutUint32(w[:4], r<<16|g)
			binary.LittleEndian.PutUint32(w[4:], bb<<16|a)
			h.Write(w[:])
		}
	}
	o.pix = hex.EncodeToString(h.Sum(nil)[:12])
	o.content = bc.Content()
	m := bc.Metadata()
	o.meta = strconv.Quote(m.CodeKind) + "/" + strconv.Itoa(int(m.Dimensions))
	o.model = modelName(bc.ColorModel())
	if c, ok := bc.(barcode.BarcodeColor); ok {
		s := c.ColorScheme()
		o.scheme = modelName(s.Model) + "|" + colorStr(s.Background) + "|" + colorStr(s.Foreground)
	} else {
		o.scheme = "-"
	}
	if c, ok := bc.(barcode.BarcodeIntCS); ok {
		o.cs = strconv.Itoa(c.CheckSum())
	} else {
		o.cs = "-"
	}
	return o
}

func (o observation) digest() string {
	h := sha256.New()
	for _, part := range []string{o.pix, strconv.Quote(o.content), o.meta, o.model, o.scheme, o.cs} {
		h.Write([]byte(part))
		h.Write([]byte{0})
	}
	return hex.EncodeToString(h.Sum(nil)[:16])
}

func (o observation) diff(p observation) string {
	var d []string
	if o.pix != p.pix {
		d = append(d, "pixels")
	}
	if o.content != p.content {
		d = append(d, "Content()")
	}
	if o.meta != p.meta {
		d = append(d, "Metadata()")
	}
	if o.model != p.model {
		d = append(d, "ColorModel()")
	}
	if o.scheme != p.scheme {
		d = append(d, "ColorScheme()")
	}
	if o.cs != p.cs {
		d = append(d, "CheckSum()")
	}
	return strings.Join(d, ",")
}

func hashBytes(tag string, b []byte) string {
	h := sha256.New()
	h.Write([]byte(tag))
	h.Write(b)
	return hex.EncodeToString(h.Sum(nil)[:16])
}

// ---- executing a call ----------------------------------------------------

var schemes = []barcode.ColorScheme{
	{}, // 0: unused
	barcode.ColorScheme8,
	barcode.ColorScheme16,
	barcode.ColorScheme24,
	barcode.ColorScheme32,
	{Model: color.NRGBAModel, Background: color.NRGBA{R: 10, G: 200, B: 30, A: 255}, Foreground: color.NRGBA{R: 200, G: 0, B: 90, A: 255}},
}

func fillColor(n int) color.Color {
	return color.RGBA{R: uint8(n * 37), G: uint8(n * 91), B: uint8(n * 13), A: 255}
}

type retained struct {
	bc  barcode.Barcode
	obs observation
	res *CallResult
	mut bool // the argument buffer was overwritten after the call
}

// env is per-segment shared state visible to all workers (read-only after setup).
type env struct {
	shared map[string]barcode.Barcode             // key(call) -> barcode built in phase 0
	rs     map[[3]int][]*utils.ReedSolomonEncoder // field -> shared encoders (index H-1)
}

// tryObserve is observe that reports a panic instead of propagating it.
func tryObserve(bc barcode.Barcode) (o observation, ok bool) {
	defer func() {
		if recover() != nil {
			ok = false
		}
	}()
	return observe(bc), true
}

// srcModified: Scale changed the barcode it was given.
type srcModified struct{ what string }

func (s srcModified) Error() string {
	return "Scale modified the barcode passed to it: " + s.what
}

func encodeCall(c *Call, e *env, buf []byte) (barcode.Barcode, error) {
	s := string(buf)
	switch c.Fn {
	case "qr":
		if c.Color == 0 {
			return qr.Encode(s, qr.ErrorCorrectionLevel(c.I1), qr.Encoding(c.I2))
		}
		return qr.EncodeWithColor(s, qr.ErrorCorrectionLevel(c.I1), qr.Encoding(c.I2), schemes[c.Color])
	case "dm":
		if c.Color == 0 {
			return datamatrix.Encode(s)
		}
		return datamatrix.EncodeWithColor(s, schemes[c.Color])
	case "aztec":
		// the []byte argument is passed as is: the caller's buffer
		if c.Color == 0 {
			return aztec.Encode(buf, c.I1, c.I2)
		}
		return aztec.EncodeWithColor(buf, c.I1, c.I2, schemes[c.Color])
	case "pdf417":
		if c.Color == 0 {
			return pdf417.Encode(s, byte(c.I1))
		}
		return pdf417.EncodeWithColor(s, byte(c.I1), schemes[c.Color])
	case "code128":
		if c.Color == 0 {
			return code128.Encode(s)
		}
		return code128.EncodeWithColor(s, schemes[c.Color])
	case "code128nc":
		if c.Color == 0 {
			return code128.EncodeWithoutChecksum(s)
		}
		return code128.EncodeWithoutChecksumWithColor(s, schemes[c.Color])
	case "code39":
		if c.Color == 0 {
			return code39.Encode(s, c.F1, c.F2)
		}
		return code39.EncodeWithColor(s, c.F1, c.F2, schemes[c.Color])
	case "code93":
		if c.Color == 0 {
			return code93.Encode(s, c.F1, c.F2)
		}
		return code93.EncodeWithColor(s, c.F1, c.F2, schemes[c.Color])
	case "codabar":
		if c.Color == 0 {
			return codabar.Encode(s)
		}
		return codabar.EncodeWithColor(s, schemes[c.Color])
	case "ean":
		if c.Color == 0 {
			return ean.Encode(s)
		}
		return ean.EncodeWithColor(s, schemes[c.Color])
	case "2of5":
		if c.Color == 0 {
			return twooffive.Encode(s, c.F1)
		}
		return twooffive.EncodeWithColor(s, c.F1, schemes[c.Color])
	case "same":
		// the segment-wide shared instance itself (several callers observe one barcode)
		if c.Share && e != nil {
			if src := e.shared[callKey(c.Src)]; src != nil {
				return src, nil
			}
		}
		return encodeCall(c.Src, e, append([]byte(nil), c.Src.B...))
	case "scale":
		var src barcode.Barcode
		if c.Share && e != nil {
			src = e.shared[callKey(c.Src)]
		}
		if src == nil {
			var err error
			src, err = encodeCall(c.Src, e, append([]byte(nil), c.Src.B...))
			if err != nil {
				return nil, errors.New("scale source: " + err.Error())
			}
		}
		// the barcode handed to Scale is an argument like any other: it must come back unchanged
		// (private sources only: a shared one is being read by other callers at the same time)
		private := !(c.Share && e != nil && e.shared[callKey(c.Src)] != nil)
		var before observation
		if private {
			var ok bool
			if before, ok = tryObserve(src); !ok {
				private = false // the source cannot even be looked at (e.g. nil fill colour): nothing to compare
			}
		}
		var out barcode.Barcode
		var err error
		switch {
		case c.Fill == 0:
			out, err = barcode.Scale(src, c.I1, c.I2)
		case c.Fill < 0:
			out, err = barcode.ScaleWithFill(src, c.I1, c.I2, nil)
		default:
			out, err = barcode.ScaleWithFill(src, c.I1, c.I2, fillColor(c.Fill))
		}
		if private {
			if after, ok := tryObserve(src); ok {
				if d := before.diff(after); d != "" {
					return nil, srcModified{d}
				}
			}
		}
		return out, err
	}
	return nil, errors.New("simnode: unknown fn " + c.Fn)
}

// extraFns: additional call kinds registered by optional files (build tags).
var extraFns = map[string]func(c *Call, slot *CallResult){}

// execCall runs one call and observes it. keep receives barcodes whose
// argument buffer was overwritten afterwards, for a later re-observation.
func execCall(c *Call, e *env, keep *[]retained, slot *CallResult) {
	defer func() {
		if r := recover(); r != nil {
			slot.Class = "panic"
			slot.Panic = fmt.Sprint(r)
			slot.Stack = string(debug.Stack())
		}
	}()
	if f := extraFns[c.Fn]; f != nil {
		f(c, slot)
		return
	}
	switch c.Fn {
	case "bitlist":
		runBitHistory(c, slot)
		return
	case "addcs":
		before := string(c.B)
		out, err := twooffive.AddCheckSum(before)
		if err != nil {
			slot.Class = "err"
			slot.Err = err.Error()
			return
		}
		slot.Class = "ok"
		slot.Digest = hashBytes("addcs", []byte(out))
		return
	case "rs":
		var enc *utils.ReedSolomonEncoder
		if c.H > 0 && e != nil && len(e.rs[c.GF]) >= c.H {
			enc = e.rs[c.GF][c.H-1]
		} else {
			enc = utils.NewReedSolomonEncoder(utils.NewGaloisField(c.GF[0], c.GF[1], c.GF[2]))
		}
		ibacking := make([]int, len(c.Ints)+8)
		copy(ibacking, c.Ints)
		for i := len(c.Ints); i < len(ibacking); i++ {
			ibacking[i] = -7777
		}
		data := ibacking[:len(c.Ints)]
		orig := append([]int(nil), c.Ints...)
		out := enc.Encode(data, c.I1)
		for i := range data {
			if data[i] != orig[i] {
				slot.ArgMod = true
			}
		}
		for i := len(c.Ints); i < len(ibacking); i++ {
			if ibacking[i] != -7777 {
				slot.ArgMod = true
			}
		}
		var bb bytes.Buffer
		for _, v := range out {
			bb.WriteString(strconv.Itoa(v))
			bb.WriteByte(',')
		}
		slot.Class = "ok"
		slot.Digest = hashBytes("rs", bb.Bytes())
		if c.Mut {
			// returned slice must not alias the argument: overwrite the argument, compare
			for i := range ibacking {
				ibacking[i] ^= 0x55
			}
			var b2 bytes.Buffer
			for _, v := range out {
				b2.WriteString(strconv.Itoa(v))
				b2.WriteByte(',')
			}
			slot.MutDig = hashBytes("rs", b2.Bytes())
			if slot.MutDig != slot.Digest {
				slot.MutWhat = "result"
			}
		}
		return
	}

	// the caller's buffer: a window into a larger array whose spare capacity holds sentinels, so
	// that a library that appends into (or writes beyond) the slice it was given is noticed too
	const spare = 24
	backing := make([]byte, len(c.B)+spare)
	copy(backing, c.B)
	for i := len(c.B); i < len(backing); i++ {
		backing[i] = 0xA7
	}
	buf := backing[:len(c.B)]
	bc, err := encodeCall(c, e, buf)
	if !bytes.Equal(buf, c.B) {
		slot.ArgMod = true
	}
	for i := len(c.B); i < len(backing); i++ {
		if backing[i] != 0xA7 {
			slot.ArgMod = true
		}
	}
	if sm, ok := err.(srcModified); ok {
		slot.Class = "err"
		slot.Err = sm.Error()
		slot.ArgMod = true
		return
	}
	if err != nil {
		slot.Class = "err"
		slot.Err = err.Error()
		if bc != nil {
			slot.Err = "non-nil barcode with error: " + slot.Err
		}
		return
	}
	if bc == nil {
		slot.Class = "err"
		slot.Err = "nil barcode with nil error"
		return
	}
	obs := observe(bc)
	slot.Class = "ok"
	slot.Digest = obs.digest()
	slot.W, slot.H = bc.Bounds().Dx(), bc.Bounds().Dy()
	if c.Mut {
		for i := range backing {
			backing[i] ^= 0x5a // the whole array, spare capacity included
		}
		after := observe(bc)
		slot.MutDig = after.digest()
		if d := obs.diff(after); d != "" {
			slot.MutWhat = d
		}
		if keep != nil {
			*keep = append(*keep, retained{bc: bc, obs: obs, res: slot, mut: true})
		}
	} else if keep != nil && len(*keep) < 48 && !(c.Fn == "same" && c.Share) {
		// every returned barcode is a value: look at it again after later calls
		*keep = append(*keep, retained{bc: bc, obs: obs, res: slot})
	}
}

// finishProgram re-observes every retained barcode "k calls later".
func finishProgram(keep []retained) {
	for _, r := range keep {
		func() {
			defer func() {
				if p := recover(); p != nil {
					r.res.EndDig = "panic: " + fmt.Sprint(p)
					r.res.MutWhat += ",panic-at-end"
				}
			}()
			after := observe(r.bc)
			r.res.EndDig = after.digest()
			if d := r.obs.diff(after); d != "" {
				if r.mut && r.res.MutWhat == "" {
					r.res.MutWhat = d + " (later)"
				} else if !r.mut {
					r.res.LaterWhat = d
				}
			}
		}()
	}
}
