//go:build simnode

package zz_simnode

import (
	"fmt"
	"runtime/debug"

	"MODULEPATH/utils"
	rt "MODULEPATH/zz_simrt"
)

// packBits is the reference byte view: eight bits per byte, first bit most
// significant, zero padded at the end.
func packBits(m []bool) []byte {
	out := make([]byte, (len(m)+7)/8)
	for i, b := range m {
		if b {
			out[i/8] |= 0x80 >> uint(i%8)
		}
	}
	return out
}

func cheapHash(hist, op int) uint32 {
	x := uint32(hist)*2654435761 ^ uint32(op)*40503
	x ^= x >> 15
	x *= 2246822519
	x ^= x >> 13
	return x
}

// runBitHistory drives the real BitList and a []bool model with the same
// operations and compares after every step.
func runBitHistory(c *Call, slot *CallResult) {
	stats := map[string]int{}
	slot.Stats = stats
	var bl *utils.BitList = new(utils.BitList)
	var model []bool
	// a second list that the history can switch to and from
	var other *utils.BitList = new(utils.BitList)
	var otherModel []bool
	histID := c.I1
	lastStream := 0
	panicked := false

	fail := func(op int, format string, a ...any) {
		slot.Class = "diverged"
		slot.Err = fmt.Sprintf("op %d (%s): ", op, c.Ops[op].Op) + fmt.Sprintf(format, a...)
	}
	// compare a window [lo,hi) of the list with the model
	window := func(op, lo, hi int) bool {
		if lo < 0 {
			lo = 0
		}
		if hi > len(model) {
			hi = len(model)
		}
		for i := lo; i < hi; i++ {
			if bl.GetBit(i) != model[i] {
				fail(op, "bit %d is %v, model says %v (len %d)", i, bl.GetBit(i), model[i], len(model))
				return false
			}
		}
		return true
	}
	bytesEq := func(op int, what string, got []byte) bool {
		want := packBits(model)
		if len(got) != len(want) {
			fail(op, "%s has %d bytes, model says %d (len %d bits)", what, len(got), len(want), len(model))
			return false
		}
		for i := range want {
			if got[i] != want[i] {
				fail(op, "%s byte %d is %#02x, model says %#02x (len %d bits)", what, i, got[i], want[i], len(model))
				return false
			}
		}
		return true
	}

	// one operation; false = stop (a divergence has been recorded)
	step := func(i int) bool {
		op := &c.Ops[i]
		before := len(model)
		switch op.Op {
		case "switch":
			bl, other = other, bl
			model, otherModel = otherModel, model
			stats["switch"]++
		case "new":
			if op.A < 0 {
				return true
			}
			bl = utils.NewBitList(op.A)
			model = make([]bool, op.A)
			stats["new"]++
		case "zero":
			bl = new(utils.BitList)
			model = nil
		case "addbit":
			bl.AddBit(op.Bs...)
			model = append(model, op.Bs...)
			stats["addbit"]++
		case "addbits":
			if op.N < 0 || op.N > 64 {
				return true
			}
			bl.AddBits(op.A, byte(op.N))
			for k := op.N - 1; k >= 0; k-- {
				model = append(model, (uint64(int64(op.A))>>uint(k))&1 == 1)
			}
			stats["addbits"]++
		case "fill":
			// N bits of a pattern, appended in chunks of A bits (bulk growth without a huge op list)
			if op.N < 0 || op.N > 8_000_000 {
				return true
			}
			chunk := op.A
			if chunk <= 0 {
				chunk = 4096
			}
			x := uint64(op.Reads)*0x9e3779b97f4a7c15 + 1
			bits := make([]bool, 0, chunk)
			for done := 0; done < op.N; {
				bits = bits[:0]
				for len(bits) < chunk && done < op.N {
					var b bool
					switch {
					case len(op.Bs) > 0:
						b = op.Bs[done%len(op.Bs)] // repeating pattern
					case op.V:
						b = true
					default:
						x ^= x << 13
						x ^= x >> 7
						x ^= x << 17
						b = x&1 == 1
					}
					bits = append(bits, b)
					done++
				}
				bl.AddBit(bits...)
				model = append(model, bits...)
			}
			stats["fill"]++
		case "addbyte":
			bl.AddByte(byte(op.A))
			for k := 7; k >= 0; k-- {
				model = append(model, (byte(op.A)>>uint(k))&1 == 1)
			}
			stats["addbyte"]++
		case "set":
			if op.A < 0 || op.A >= len(model) {
				return true
			}
			bl.SetBit(op.A, op.V)
			model[op.A] = op.V
			stats["set"]++
			if !window(i, op.A-40, op.A+40) {
				return false
			}
		case "get":
			if op.A < 0 || op.A >= len(model) {
				return true
			}
			if got := bl.GetBit(op.A); got != model[op.A] {
				fail(i, "GetBit(%d) = %v, model says %v", op.A, got, model[op.A])
				return false
			}
			stats["get"]++
		case "len":
			stats["len"]++
		case "bytes":
			if !bytesEq(i, "GetBytes()", bl.GetBytes()) {
				return false
			}
			stats["bytes"]++
		case "iter":
			ch := bl.IterateBytes()
			var got []byte
			n := 0
			for {
				v, ok := rt.Recv2(ch, 0)
				if !ok {
					break
				}
				got = append(got, v)
				// the consumer keeps reading the list while the stream is open
				for r := 0; r < op.Reads && len(model) > 0; r++ {
					idx := int(cheapHash(n, r+i)) % len(model)
					if idx < 0 {
						idx = -idx
					}
					if bl.GetBit(idx) != model[idx] {
						fail(i, "GetBit(%d) during iteration disagrees with the model", idx)
						// drain so that no producer is stranded by the harness itself
						for range ch {
						}
						return false
					}
					if bl.Len() != len(model) {
						fail(i, "Len() during iteration = %d, model says %d", bl.Len(), len(model))
						for range ch {
						}
						return false
					}
				}
				n++
				if n > len(model)/8+16 {
					fail(i, "IterateBytes produced more than %d bytes for %d bits", n, len(model))
					return false
				}
			}
			if !bytesEq(i, "IterateBytes()", got) {
				return false
			}
			stats["iter"]++
			stats["iter_bytes"] += len(got)
		case "itern":
			// several streams open on the same (unchanged) list at once, consumed in a seeded interleaving
			k := op.A
			if k < 2 {
				k = 2
			}
			if k > 4 {
				k = 4
			}
			chans := make([]<-chan byte, k)
			gots := make([][]byte, k)
			closed := make([]bool, k)
			open := 0
			x := uint32(op.N)*2654435761 + 12345
			guard := 0
			for open < k || func() bool {
				for j := range closed {
					if !closed[j] {
						return true
					}
				}
				return false
			}() {
				guard++
				if guard > k*(len(model)/8+20)*4 {
					fail(i, "interleaved IterateBytes streams did not finish")
					return false
				}
				x = x*1664525 + 1013904223
				j := int(x>>16) % k
				// bias: stay on one stream for a while so that streams drift apart by whole blocks
				if (x>>8)%4 != 0 && guard > 1 {
					j = int(x>>24) % k
					if (x>>12)%8 != 0 {
						j = lastStream
					}
				}
				if closed[j] {
					// pick any unfinished stream
					for jj := range closed {
						if !closed[jj] {
							j = jj
							break
						}
					}
				}
				lastStream = j
				if chans[j] == nil {
					chans[j] = bl.IterateBytes()
					open++
				}
				v, ok := rt.Recv2(chans[j], 0)
				if !ok {
					closed[j] = true
					continue
				}
				gots[j] = append(gots[j], v)
				if len(gots[j]) > len(model)/8+16 {
					fail(i, "IterateBytes stream %d produced too many bytes", j)
					return false
				}
			}
			for j := range gots {
				if !bytesEq(i, "IterateBytes() stream "+string(rune('A'+j))+" of "+string(rune('0'+k))+" concurrent streams", gots[j]) {
					return false
				}
			}
			stats["itern"]++
		default:
			return true
		}
		if bl.Len() != len(model) {
			fail(i, "Len() = %d, model says %d", bl.Len(), len(model))
			return false
		}
		if len(model) > stats["max_len"] {
			stats["max_len"] = len(model)
		}
		if before/32 != len(model)/32 {
			stats["word_crossings"]++
		}
		// appended region plus what precedes it
		if len(model) > before {
			if !window(i, before-70, len(model)) {
				return false
			}
		}
		// whole content: always for short lists, sampled for long ones
		if len(model) <= 2048 || cheapHash(histID, i)%16 == 0 || i == len(c.Ops)-1 {
			if !window(i, 0, len(model)) {
				return false
			}
			stats["full_checks"]++
		}
		return true
	}
	for i := range c.Ops {
		if c.Ops[i].Go {
			// the same list, used by another goroutine strictly after this one (hand-over through a
			// channel) and handed back: nothing may depend on WHICH goroutine touches the list
			done := make(chan bool)
			go func() {
				defer func() {
					if r := recover(); r != nil {
						slot.Class = "panic"
						slot.Panic = fmt.Sprint(r)
						slot.Stack = string(debug.Stack())
						panicked = true
						done <- false
					}
				}()
				done <- step(i)
			}()
			if !<-done {
				if panicked {
					return
				}
				return
			}
			stats["handoffs"]++
			continue
		}
		if !step(i) {
			return
		}
	}
	// final: both byte views agree with the model
	last := len(c.Ops) - 1
	if last < 0 {
		last = 0
		slot.Class = "ok"
		return
	}
	if !bytesEq(last, "final GetBytes()", bl.GetBytes()) {
		return
	}
	if len(otherModel) > 0 || other.Len() > 0 {
		bl, other = other, bl
		model, otherModel = otherModel, model
		if bl.Len() != len(model) {
			fail(last, "Len() of the second list = %d, model says %d", bl.Len(), len(model))
			return
		}
		if !window(last, 0, len(model)) || !bytesEq(last, "final GetBytes() of the second list", bl.GetBytes()) {
			return
		}
	}
	slot.Class = "ok"
	slot.Digest = hashBytes("bitlist", packBits(model))
}
