//go:build simnode && synth

package zz_simnode

import (
	"strconv"

	synth "MODULEPATH/zzsynth"
)

// Calls into the synthetic construct library (selftest "sim-constructs" only).
func init() {
	extraFns["synth"] = func(c *Call, slot *CallResult) {
		var out []byte
		app := func(vs ...int) {
			for _, v := range vs {
				out = strconv.AppendInt(out, int64(v), 10)
				out = append(out, ',')
			}
		}
		switch c.I1 {
		case 0:
			app(synth.Squares(c.I2, 3)...)
		case 1:
			app(synth.Squares(c.I2, 1000)...)
		case 2:
			s, t := synth.FanOut([]int{1, 2, 3, c.I2})
			app(s, int(t))
		case 3:
			app(synth.Lookup('c'), synth.Lookup(rune('a'+c.I2%6)), synth.Lookup('z'))
		case 4:
			for _, k := range synth.Keys(map[string]int{"b": 1, "a": -2, "c": c.I2}) {
				out = append(out, k...)
			}
		case 5:
			app(synth.BuildOnce(2 + c.I2%5)...)
		case 6:
			ch := make(chan int, 1)
			if synth.TrySend(ch, 1) {
				app(1)
			}
			if synth.TrySend(ch, 2) {
				app(2)
			}
			app(synth.InitSend(make(chan int, 1)))
		case 11:
			app(synth.IdleStream(3 + c.I2%4)...)
			app(synth.Ticks())
		case 10:
			app(synth.Misc(c.I2))
		case 8:
			app(synth.Timeout(), synth.Cancel())
		case 9:
			app(synth.CancelSelect(), synth.AfterFunc())
		case 7:
			b := synth.NewDeep()
			b.Set("k", c.I2)
			v, _ := b.Get("k")
			app(v, synth.Shared.Inc())
		}
		slot.Class = "ok"
		slot.Digest = hashBytes("synth", out)
	}
}
