//go:build amd64

package zz_simrt

func getg() uintptr

// Goid returns a key that is unique among LIVE goroutines: the address of the
// goroutine's g structure (one load; runtime.Stack costs ~10 µs per call, which
// was 40 % of a node's CPU time). The runtime reuses g structures of finished
// goroutines; the scheduler rebinds the key whenever a goroutine announces
// itself with Start.
func Goid() uint64 { return uint64(getg()) }
