//go:build race

package zz_simrt

import "runtime"

const RaceBuild = true

func raceDisable() { runtime.RaceDisable() }
func raceEnable()  { runtime.RaceEnable() }

// RaceDisable / RaceEnable for the scheduler goroutine.
func RaceDisable() { runtime.RaceDisable() }
func RaceEnable()  { runtime.RaceEnable() }

// RaceErrors returns the number of races reported so far.
func RaceErrors() int { return runtime.RaceErrors() }
