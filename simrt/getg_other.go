//go:build !amd64

package zz_simrt

// Goid returns the runtime id of the calling goroutine (portable, slow).
func Goid() uint64 { return RealGoid() }
