//go:build !race

package zz_simrt

const RaceBuild = false

func raceDisable() {}
func raceEnable()  {}

func RaceDisable() {}
func RaceEnable()  {}

func RaceErrors() int { return 0 }
