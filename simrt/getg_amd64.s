//go:build amd64

#include "textflag.h"

// func getg() uintptr
// The current goroutine's g pointer: on amd64 the runtime keeps it in thread
// local storage, which ABI0 assembly reads as (TLS).
TEXT ·getg(SB),NOSPLIT,$0-8
	MOVQ (TLS), AX
	MOVQ AX, ret+0(FP)
	RET
