// Package zz_simrt is the hook runtime that cmd/instrument routes every
// synchronisation operation of the library through. It is copied into the
// scratch copy of the repository as <module>/zz_simrt.
//
// With no simulator attached (Attach not called) every wrapper is the plain
// operation, so an instrumented tree behaves exactly like the original.
//
// With a simulator attached, every wrapper "parks": it posts a message to the
// scheduler's queue and blocks on a fresh reply channel until the scheduler
// releases it. The scheduler alone decides who runs next. Parks are bracketed
// by runtime.RaceDisable/RaceEnable so that the harness's own channel traffic
// creates no happens-before edges for the race detector: the only edges it
// sees are the library's own.
package zz_simrt

import (
	"fmt"
	"iter"
	"reflect"
	"runtime"
	"sort"
	"strings"
	"sync"
	"sync/atomic"
	"time"
	"unsafe"
)

// Kind of scheduling point.
type Kind uint8

const (
	KNone Kind = iota
	KStart
	KSpawn
	KSendPre
	KSendPost
	KRecvPre
	KRecvPost
	KClosePre
	KClosePost
	KLock
	KUnlock
	KRLock
	KRUnlock
	KMapRange
	KSelectPre
	KSelectPost
	KSyncPre
	KSyncPost
	KCallBegin
	KCallEnd
	KExit
	KUser
	KCondWait
	KCondSignal
	KCondBroadcast
	KTimer
	KGone
)

var kindNames = [...]string{"none", "start", "spawn", "send", "sent", "recv", "recvd", "close", "closed",
	"lock", "unlock", "rlock", "runlock", "maprange", "select", "selected", "sync", "synced",
	"call", "ret", "exit", "user", "condwait", "signal", "broadcast", "timer", "gone"}

func (k Kind) String() string {
	if int(k) < len(kindNames) {
		return kindNames[k]
	}
	return "kind?"
}

// Msg is what a parking goroutine posts to the scheduler.
type Msg struct {
	Kind  Kind
	Goid  uint64
	Site  int32
	Addr  uintptr
	Arg   uint64
	Reply chan uint64 // nil: the goroutine does not wait for an answer
	Ch    any         // channel operations: the channel itself (the scheduler reads len/cap and keeps it alive)
	// KSelectPre: the communication cases in source order. An array inside the
	// message, not a slice: the scheduler must not read memory the worker wrote
	// outside the message (no happens-before edge exists between them by design).
	Cases  [MaxSelCases]SelCase
	NCases int
	Deflt  bool // the select has a default clause
}

// MaxSelCases is the largest select the scheduler models; a larger one runs as written.
const MaxSelCases = 12

// SelCase is one communication clause of a select statement.
type SelCase struct {
	Send bool
	Ch   any
	Addr uintptr
}

// Sim is the attachment point. Q must be a buffered channel created inside
// the synctest bubble, large enough never to block.
type Sim struct {
	Q chan Msg
}

// curp is read by every hook; goroutines started during package initialisation
// may read it while the node attaches, hence atomic.
var curp atomic.Pointer[Sim]

// Attach installs the simulator. Must be called before any simulated
// goroutine exists (happens-before through the go statements).
func Attach(s *Sim) { curp.Store(s) }

// Active reports whether a simulator is attached.
func Active() bool { return curp.Load() != nil }

// RealGoid returns the runtime id of the calling goroutine, parsed from a stack dump.
func RealGoid() uint64 {
	var buf [64]byte
	n := runtime.Stack(buf[:], false)
	// "goroutine 123 [..."
	var id uint64
	for i := len("goroutine "); i < n; i++ {
		c := buf[i]
		if c < '0' || c > '9' {
			break
		}
		id = id*10 + uint64(c-'0')
	}
	return id
}

func park(k Kind, site int32, addr uintptr, arg uint64) uint64 {
	return parkMsg(Msg{Kind: k, Site: site, Addr: addr, Arg: arg})
}

func parkMsg(m Msg) (v uint64) {
	s := curp.Load()
	if s == nil {
		return 0
	}
	raceDisable()
	// A goroutine outside the synctest bubble (started from init(), a finalizer) cannot talk to
	// the scheduler: the runtime panics on the send. Such a goroutine simply runs unscheduled.
	defer func() {
		if r := recover(); r != nil {
			if e, ok := r.(error); ok && strings.Contains(e.Error(), "synctest") {
				raceEnable()
				v = 0
				return
			}
			if str, ok := r.(string); ok && strings.Contains(str, "synctest") {
				raceEnable()
				v = 0
				return
			}
			panic(r)
		}
	}()
	ch := make(chan uint64, 1)
	m.Goid = Goid()
	m.Reply = ch
	s.Q <- m
	v = <-ch
	raceEnable()
	return v
}

func parkCh(k Kind, site int32, ch any) uint64 {
	return parkMsg(Msg{Kind: k, Site: site, Addr: addrOf(ch), Ch: ch})
}

func post(k Kind, site int32, addr uintptr, arg uint64) {
	s := curp.Load()
	if s == nil {
		return
	}
	raceDisable()
	defer func() {
		if r := recover(); r != nil {
			raceEnable() // outside the bubble: see parkMsg
		}
	}()
	s.Q <- Msg{Kind: k, Goid: Goid(), Site: site, Addr: addr, Arg: arg}
	raceEnable()
}

// Park is for the node's own worker code (call boundaries).
func Park(k Kind, site int32, arg uint64) uint64 { return park(k, site, 0, arg) }

// Post is for the node's own worker code (exit notice).
func Post(k Kind, site int32, arg uint64) { post(k, site, 0, arg) }

func addrOf(x any) uintptr {
	if x == nil {
		return 0
	}
	// interface data word: for chan, map, pointer kinds this is the pointer itself
	return uintptr((*[2]unsafe.Pointer)(unsafe.Pointer(&x))[1])
}

// ---- goroutines ----

// Spawn is called by the parent immediately before a go statement and
// returns the child's logical identity token.
func Spawn(site int32) uint64 { return park(KSpawn, site, 0, 0) }

// Start is the child's first statement.
func Start(tok uint64, site int32) {
	if tok == 0 && curp.Load() == nil {
		return
	}
	park(KStart, site, 0, tok)
}

// Done is deferred right after Start in every instrumented goroutine: the
// scheduler forgets the goroutine's key (the runtime reuses g structures).
func Done() { post(KGone, 0, 0, 0) }

// ---- channels ----

// The scheduler models every channel (buffer occupancy read from the channel
// itself, closedness and waiting partners from the hooks) and releases a
// goroutine into a channel operation only when that operation cannot block:
// both parties of a rendezvous are released together. So no simulated
// goroutine ever blocks inside a real channel operation, which also makes
// channels created outside the synctest bubble (package-level semaphores,
// "ready" channels built in init) work.
func PreSend(ch any, site int32)   { parkCh(KSendPre, site, ch) }
func PostSend(ch any, site int32)  { parkCh(KSendPost, site, ch) }
func PreClose(ch any, site int32)  { parkCh(KClosePre, site, ch) }
func PostClose(ch any, site int32) { parkCh(KClosePost, site, ch) }

func Recv[T any](ch <-chan T, site int32) T {
	if curp.Load() == nil {
		return <-ch
	}
	parkCh(KRecvPre, site, ch)
	v := <-ch
	parkCh(KRecvPost, site, ch)
	return v
}

func Recv2[T any](ch <-chan T, site int32) (T, bool) {
	if curp.Load() == nil {
		v, ok := <-ch
		return v, ok
	}
	parkCh(KRecvPre, site, ch)
	v, ok := <-ch
	var c uint64
	if !ok {
		c = 1
	}
	parkMsg(Msg{Kind: KRecvPost, Site: site, Addr: addrOf(ch), Arg: c, Ch: ch})
	return v, ok
}

func RangeChan[T any](ch <-chan T, site int32) iter.Seq[T] {
	return func(yield func(T) bool) {
		for {
			v, ok := Recv2(ch, site)
			if !ok {
				return
			}
			if !yield(v) {
				return
			}
		}
	}
}

// ---- select ----

// SendCase / RecvCase describe the clauses of a select for Select.
func SendCase(ch any) SelCase { return SelCase{Send: true, Ch: ch, Addr: addrOf(ch)} }
func RecvCase(ch any) SelCase { return SelCase{Ch: ch, Addr: addrOf(ch)} }

// Select replaces the runtime's choice among the clauses of a select
// statement: the scheduler waits until at least one clause can proceed (or
// takes default), picks one from its seeded PRNG and returns its index (-1:
// default). The instrumented code then performs just that one operation,
// which is guaranteed not to block. Without a simulator it returns -2 and the
// caller runs the original select.
func Select(site int32, deflt bool, cases ...SelCase) int {
	if curp.Load() == nil {
		return -2
	}
	if len(cases) > MaxSelCases {
		park(KSyncPre, site, 0, 0)
		return -2
	}
	m := Msg{Kind: KSelectPre, Site: site, NCases: len(cases), Deflt: deflt}
	copy(m.Cases[:], cases)
	v := parkMsg(m)
	return int(int64(v))
}

func PreSelect(site int32)  { park(KSelectPre, site, 0, 0) }
func PostSelect(site int32) { park(KSelectPost, site, 0, 0) }

// ---- locks ----

func Lock(m *sync.Mutex, site int32) {
	if curp.Load() == nil {
		m.Lock()
		return
	}
	a := uintptr(unsafe.Pointer(m))
	var retry uint64
	for {
		park(KLock, site, a, retry)
		if m.TryLock() {
			return
		}
		retry = 1
	}
}

func Unlock(m *sync.Mutex, site int32) {
	m.Unlock()
	if curp.Load() == nil {
		return
	}
	park(KUnlock, site, uintptr(unsafe.Pointer(m)), 0)
}

func TryLock(m *sync.Mutex, site int32) bool {
	if curp.Load() == nil {
		return m.TryLock()
	}
	a := uintptr(unsafe.Pointer(m))
	park(KSyncPre, site, a, 0)
	ok := m.TryLock()
	if ok {
		// tell the scheduler the lock is now held by us
		park(KLock, site, a, 2)
	}
	return ok
}

func WLock(m *sync.RWMutex, site int32) {
	if curp.Load() == nil {
		m.Lock()
		return
	}
	a := uintptr(unsafe.Pointer(m))
	var retry uint64
	for {
		park(KLock, site, a, retry)
		if m.TryLock() {
			return
		}
		retry = 1
	}
}

func WUnlock(m *sync.RWMutex, site int32) {
	m.Unlock()
	if curp.Load() == nil {
		return
	}
	park(KUnlock, site, uintptr(unsafe.Pointer(m)), 0)
}

func RLock(m *sync.RWMutex, site int32) {
	if curp.Load() == nil {
		m.RLock()
		return
	}
	a := uintptr(unsafe.Pointer(m))
	var retry uint64
	for {
		park(KRLock, site, a, retry)
		if m.TryRLock() {
			return
		}
		retry = 1
	}
}

func RUnlock(m *sync.RWMutex, site int32) {
	m.RUnlock()
	if curp.Load() == nil {
		return
	}
	park(KRUnlock, site, uintptr(unsafe.Pointer(m)), 0)
}

// OnceDo serialises entry to once.Do through the scheduler: concurrent
// callers wait in a (durably blocking) park rather than on Once's internal
// mutex, which synctest cannot see.
func OnceDo(o *sync.Once, f func(), site int32) {
	if curp.Load() == nil {
		o.Do(f)
		return
	}
	a := uintptr(unsafe.Pointer(o))
	park(KLock, site, a, 0)
	o.Do(f)
	park(KUnlock, site, a, 0)
}

// CondWait models sync.Cond.Wait without using the real notify list: release
// the lock, park as a waiter of c (runnable again only after a Signal or
// Broadcast handled by the scheduler, FIFO like the real one), then
// re-acquire the lock through the scheduler.
func CondWait(c *sync.Cond, site int32) {
	if curp.Load() == nil {
		c.Wait()
		return
	}
	switch l := c.L.(type) {
	case *sync.Mutex:
		l.Unlock()
		park(KCondWait, site, uintptr(unsafe.Pointer(c)), uint64(uintptr(unsafe.Pointer(l))))
		Lock(l, site)
	case *sync.RWMutex:
		l.Unlock()
		park(KCondWait, site, uintptr(unsafe.Pointer(c)), uint64(uintptr(unsafe.Pointer(l))))
		WLock(l, site)
	default:
		// unknown Locker: cannot be modelled; fall back to the real thing
		park(KSyncPre, site, 0, 0)
		c.Wait()
		park(KSyncPost, site, 0, 0)
	}
}

func CondSignal(c *sync.Cond, site int32) {
	if curp.Load() == nil {
		c.Signal()
		return
	}
	c.Signal() // no real waiter exists in simulation; harmless
	park(KCondSignal, site, uintptr(unsafe.Pointer(c)), 0)
}

func CondBroadcast(c *sync.Cond, site int32) {
	if curp.Load() == nil {
		c.Broadcast()
		return
	}
	c.Broadcast()
	park(KCondBroadcast, site, uintptr(unsafe.Pointer(c)), 0)
}

// ---- sync.Pool: a deterministic, maximally reusing stand-in ----
//
// The real Pool hands objects back depending on which P a goroutine happens to
// run on and on GC timing: not replayable, and reuse is rare in short runs. In
// simulation every Pool is a LIFO stack: Get returns the most recently Put
// object whenever there is one (the rare thing made common), else New().
// The stack is guarded by an ordinary mutex taken outside RaceDisable, which
// gives Put -> Get the same happens-before edge the real Pool documents.

var (
	poolMu sync.Mutex
	pools  = map[*sync.Pool][]any{}
)

func PoolGet(p *sync.Pool, site int32) any {
	if curp.Load() == nil {
		return p.Get()
	}
	poolMu.Lock()
	st := pools[p]
	var x any
	if n := len(st); n > 0 {
		x = st[n-1]
		st[n-1] = nil
		pools[p] = st[:n-1]
	}
	poolMu.Unlock()
	if x == nil && p.New != nil {
		x = p.New()
	}
	park(KSyncPost, site, 0, 0)
	return x
}

func PoolPut(p *sync.Pool, x any, site int32) {
	if curp.Load() == nil {
		p.Put(x)
		return
	}
	if x != nil {
		poolMu.Lock()
		pools[p] = append(pools[p], x)
		poolMu.Unlock()
	}
	park(KSyncPost, site, 0, 0)
}

// OnceFunc / OnceValue / OnceValues mirror the sync package's helpers but enter
// the Once through the scheduler (see OnceDo): the originals hide a sync.Once
// whose internal mutex a second caller would block on where synctest cannot
// see it.
func OnceFunc(f func()) func() {
	var o sync.Once
	return func() { OnceDo(&o, f, 0) }
}

func OnceValue[T any](f func() T) func() T {
	var o sync.Once
	var v T
	return func() T {
		OnceDo(&o, func() { v = f() }, 0)
		return v
	}
}

func OnceValues[A, B any](f func() (A, B)) func() (A, B) {
	var o sync.Once
	var a A
	var b B
	return func() (A, B) {
		OnceDo(&o, func() { a, b = f() }, 0)
		return a, b
	}
}

// LockerLock / LockerUnlock: Lock/Unlock through a sync.Locker interface value.
func LockerLock(l sync.Locker, site int32) {
	if curp.Load() == nil {
		l.Lock()
		return
	}
	switch m := l.(type) {
	case *sync.Mutex:
		Lock(m, site)
	case *sync.RWMutex:
		WLock(m, site)
	default:
		if reflect.TypeOf(l).String() == "*sync.rlocker" {
			// type rlocker RWMutex: same memory
			RLock((*sync.RWMutex)(reflect.ValueOf(l).UnsafePointer()), site)
			return
		}
		park(KSyncPre, site, 0, 0)
		l.Lock()
		park(KSyncPost, site, 0, 0)
	}
}

func LockerUnlock(l sync.Locker, site int32) {
	if curp.Load() == nil {
		l.Unlock()
		return
	}
	switch m := l.(type) {
	case *sync.Mutex:
		Unlock(m, site)
	case *sync.RWMutex:
		WUnlock(m, site)
	default:
		if reflect.TypeOf(l).String() == "*sync.rlocker" {
			RUnlock((*sync.RWMutex)(reflect.ValueOf(l).UnsafePointer()), site)
			return
		}
		l.Unlock()
		park(KSyncPost, site, 0, 0)
	}
}

// ---- timers ----
//
// The scheduler is told about every timer channel and its deadline on the
// bubble's fake clock, so a receive (or select clause) on a timer channel is
// ready exactly when fake time has reached the deadline — timer channels
// report len == cap == 0 since Go 1.23, the channel itself tells nothing.
// Arg carries the deadline as UnixNano; Arg == 0 disarms; Site2 (in Addr of
// the Msg's Ch) the period for tickers.

func timerMsg(ch any, deadline time.Time, period time.Duration, site int32) {
	if curp.Load() == nil {
		return
	}
	var arg uint64
	if !deadline.IsZero() {
		arg = uint64(deadline.UnixNano())
	}
	parkMsg(Msg{Kind: KTimer, Site: site, Addr: addrOf(ch), Arg: arg, Ch: ch, NCases: int(period)})
}

// Now / Since / Until: reading the clock is a scheduling point, so that the
// fake clock can jump between two readings inside an otherwise hook-free loop
// (a wall-clock budget checked with time.Since in a pure computation).
func Now(site int32) time.Time {
	park(KSyncPost, site, 0, 0)
	return time.Now()
}

func Since(t time.Time, site int32) time.Duration {
	park(KSyncPost, site, 0, 0)
	return time.Since(t)
}

func Until(t time.Time, site int32) time.Duration {
	park(KSyncPost, site, 0, 0)
	return time.Until(t)
}

func TimeAfter(d time.Duration, site int32) <-chan time.Time {
	ch := time.After(d)
	timerMsg(ch, time.Now().Add(d), 0, site)
	return ch
}

func NewTimer(d time.Duration, site int32) *time.Timer {
	t := time.NewTimer(d)
	timerMsg(t.C, time.Now().Add(d), 0, site)
	return t
}

func TimerReset(t *time.Timer, d time.Duration, site int32) bool {
	r := t.Reset(d)
	if t.C != nil {
		timerMsg(t.C, time.Now().Add(d), 0, site)
	}
	return r
}

func TimerStop(t *time.Timer, site int32) bool {
	r := t.Stop()
	if t.C != nil {
		timerMsg(t.C, time.Time{}, 0, site)
	}
	return r
}

func NewTicker(d time.Duration, site int32) *time.Ticker {
	t := time.NewTicker(d)
	timerMsg(t.C, time.Now().Add(d), d, site)
	return t
}

func TimeTick(d time.Duration, site int32) <-chan time.Time {
	ch := time.Tick(d)
	if ch != nil {
		timerMsg(ch, time.Now().Add(d), d, site)
	}
	return ch
}

func TickerStop(t *time.Ticker, site int32) {
	t.Stop()
	timerMsg(t.C, time.Time{}, 0, site)
}

func TickerReset(t *time.Ticker, d time.Duration, site int32) {
	t.Reset(d)
	timerMsg(t.C, time.Now().Add(d), d, site)
}

// Gosched is runtime.Gosched as a scheduling point.
func Gosched(site int32) {
	if curp.Load() == nil {
		runtime.Gosched()
		return
	}
	park(KSyncPost, site, 0, 0)
}

// PreSync / PostSync bracket sync operations that are not modelled in detail
// (WaitGroup, Cond signalling, ...): they only add scheduling points so that
// the goroutines involved park before running library code.
func PreSync(site int32)  { park(KSyncPre, site, 0, 0) }
func PostSync(site int32) { park(KSyncPost, site, 0, 0) }

// After / After2 add a scheduling point after a non-blocking atomic operation
// and pass its result(s) through.
func After[T any](v T, site int32) T {
	if curp.Load() != nil {
		park(KSyncPost, site, 0, 0)
	}
	return v
}

func After2[A, B any](a A, b B, site int32) (A, B) {
	if curp.Load() != nil {
		park(KSyncPost, site, 0, 0)
	}
	return a, b
}

// ---- maps ----

// RangeMap iterates m in an order chosen by the scheduler. Any order is
// legal for Go's map iteration. Entries deleted during the loop are not
// produced; entries added during the loop are not produced (both legal).
func RangeMap[M ~map[K]V, K comparable, V any](m M, site int32) iter.Seq2[K, V] {
	return func(yield func(K, V) bool) {
		if curp.Load() == nil {
			for k, v := range m {
				if !yield(k, v) {
					return
				}
			}
			return
		}
		keys := make([]K, 0, len(m))
		for k := range m {
			keys = append(keys, k)
		}
		sortKeys(keys)
		seed := park(KMapRange, site, addrOf(m), uint64(len(keys)))
		permute(keys, seed)
		for _, k := range keys {
			v, ok := m[k]
			if !ok {
				continue
			}
			if !yield(k, v) {
				return
			}
		}
	}
}

// Map order modes, encoded in the top byte of the scheduler's payload.
const (
	MapIdentity = 0
	MapReverse  = 1
	MapRotate   = 2
	MapShuffle  = 3
)

func permute[K any](keys []K, payload uint64) {
	n := len(keys)
	if n < 2 {
		return
	}
	mode := payload >> 56
	x := payload & (1<<56 - 1)
	switch mode {
	case MapIdentity:
	case MapReverse:
		for i, j := 0, n-1; i < j; i, j = i+1, j-1 {
			keys[i], keys[j] = keys[j], keys[i]
		}
	case MapRotate:
		r := int(x % uint64(n))
		tmp := append(append([]K(nil), keys[r:]...), keys[:r]...)
		copy(keys, tmp)
	default:
		s := x*2 + 1
		for i := n - 1; i > 0; i-- {
			s += 0x9e3779b97f4a7c15
			z := s
			z = (z ^ (z >> 30)) * 0xbf58476d1ce4e5b9
			z = (z ^ (z >> 27)) * 0x94d049bb133111eb
			z ^= z >> 31
			j := int(z % uint64(i+1))
			keys[i], keys[j] = keys[j], keys[i]
		}
	}
}

func sortKeys[K any](keys []K) {
	if len(keys) < 2 {
		return
	}
	rv := reflect.ValueOf(keys[0])
	switch rv.Kind() {
	case reflect.Int, reflect.Int8, reflect.Int16, reflect.Int32, reflect.Int64:
		sort.SliceStable(keys, func(i, j int) bool {
			return reflect.ValueOf(keys[i]).Int() < reflect.ValueOf(keys[j]).Int()
		})
	case reflect.Uint, reflect.Uint8, reflect.Uint16, reflect.Uint32, reflect.Uint64, reflect.Uintptr:
		sort.SliceStable(keys, func(i, j int) bool {
			return reflect.ValueOf(keys[i]).Uint() < reflect.ValueOf(keys[j]).Uint()
		})
	case reflect.String:
		sort.SliceStable(keys, func(i, j int) bool {
			return reflect.ValueOf(keys[i]).String() < reflect.ValueOf(keys[j]).String()
		})
	case reflect.Float32, reflect.Float64:
		sort.SliceStable(keys, func(i, j int) bool {
			return reflect.ValueOf(keys[i]).Float() < reflect.ValueOf(keys[j]).Float()
		})
	default:
		strs := make([]string, len(keys))
		for i := range keys {
			strs[i] = fmt.Sprintf("%#v", keys[i])
		}
		idx := make([]int, len(keys))
		for i := range idx {
			idx[i] = i
		}
		sort.SliceStable(idx, func(a, b int) bool { return strs[idx[a]] < strs[idx[b]] })
		tmp := make([]K, len(keys))
		for i, j := range idx {
			tmp[i] = keys[j]
		}
		copy(keys, tmp)
	}
}
