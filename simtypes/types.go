package simtypes

// Shared between the coordinator (cmd/verifctl) and the node (copied into the
// scratch module as part of package zz_simnode with the package clause
// rewritten). Stdlib only; JSON on the wire.

// Call is one library call. Content is always carried as bytes (B) so that
// arbitrary byte strings survive JSON.
type Call struct {
	Fn    string  `json:"fn"`              // qr dm aztec pdf417 code128 code128nc code39 code93 codabar ean 2of5 addcs scale rs same bitlist
	B     []byte  `json:"b,omitempty"`     // content
	I1    int     `json:"i1,omitempty"`    // qr: level; aztec: min ecc %; pdf417: security level; scale: width; rs: ecc count
	I2    int     `json:"i2,omitempty"`    // qr: mode; aztec: layers; scale: height
	F1    bool    `json:"f1,omitempty"`    // code39/93: includeChecksum; 2of5: interleaved
	F2    bool    `json:"f2,omitempty"`    // code39/93: fullASCII
	Color int     `json:"color,omitempty"` // 0: plain Encode; 1..4: ColorScheme8/16/24/32; 5: custom scheme
	Src   *Call   `json:"src,omitempty"`   // scale: the barcode to scale
	Share bool    `json:"share,omitempty"` // scale: use the segment-wide shared instance of Src if there is one
	Fill  int     `json:"fill,omitempty"`  // scale: 0 = Scale; n>0 = ScaleWithFill with a colour derived from n
	Ints  []int   `json:"ints,omitempty"`  // rs: data symbols
	GF    [3]int  `json:"gf,omitempty"`    // rs: primitive polynomial, field size, generator base
	H     int     `json:"h,omitempty"`     // rs: which of the segment's shared encoders of that field (0 = private fresh encoder)
	Mut   bool    `json:"mut,omitempty"`   // after the call: overwrite the argument buffer and re-observe the result
	Ops   []BitOp `json:"ops,omitempty"`   // bitlist: an operation history checked against a []bool model
}

// Policy selects how the scheduler picks among runnable goroutines.
type Policy struct {
	Name string  `json:"name"`        // fifo | uniform | sticky | pct
	P    float64 `json:"p,omitempty"` // sticky: preemption probability
	D    int     `json:"d,omitempty"` // pct: number of priority change points
	Est  int     `json:"est,omitempty"`
}

// Stall keeps logical goroutine G unscheduled during steps [From, From+Len)
// unless nothing else can run.
type Stall struct {
	G    int `json:"g"`
	From int `json:"from"`
	Len  int `json:"len"`
}

// BitOp is one operation of a BitList history.
type BitOp struct {
	Op string `json:"op"`          // new zero addbit addbits addbyte set get len bytes iter itern switch fill
	A  int    `json:"a,omitempty"` // new: n; addbits: value; addbyte: byte; set/get: index
	N  int    `json:"n,omitempty"` // addbits: count; addbit: number of bits taken from Bits
	V  bool   `json:"v,omitempty"` // set: value
	Bs []bool `json:"bs,omitempty"`
	Go bool   `json:"go,omitempty"` // perform this operation on a fresh goroutine and wait for it
	// iter only: read operations performed by the consumer between receives
	Reads int `json:"reads,omitempty"`
}

// Segment is one process lifetime.
type Segment struct {
	Kind     string     `json:"kind"` // calls | bitlist
	Seed     uint64     `json:"seed"`
	Policy   Policy     `json:"policy"`
	Stalls   []Stall    `json:"stalls,omitempty"`
	MapMode  int        `json:"map_mode"` // 0 identity 1 reverse 2 rotate 3 shuffle 4 mixed
	ClockNs  int64      `json:"clock_ns,omitempty"`
	JumpPct  int        `json:"jump_pct,omitempty"` // percent of call boundaries at which the fake clock jumps forward
	StepCap  int        `json:"step_cap,omitempty"`
	Shared   []Call     `json:"shared,omitempty"` // barcodes built in phase 0 and shared by scale calls
	RSShared int        `json:"rs_shared,omitempty"`
	Phases   [][][]Call `json:"phases,omitempty"` // phase -> worker -> program

	MidJumpPPM int  `json:"mid_jump_ppm,omitempty"` // per-step probability (ppm) of a 1 ms..10 s fake-clock jump in the middle of calls
	GCPct      int  `json:"gc_pct,omitempty"`       // percent of call boundaries before which the caller forces a garbage collection
	Procs      int  `json:"procs,omitempty"`        // GOMAXPROCS of the node process (0: default 2)
	NoSim      bool `json:"no_sim,omitempty"`       // run the calls natively, without the simulator (input probing only; never used as an oracle)

	// explicit replay: when Choices is non-nil the policy and stalls are ignored
	Choices []int32  `json:"choices,omitempty"`
	MapPay  []uint64 `json:"map_pay,omitempty"`
	Aux     []uint32 `json:"aux,omitempty"` // recorded auxiliary choices (rendezvous partners, select clauses)
	Replay  bool     `json:"replay,omitempty"`

	Record    bool `json:"record,omitempty"`     // return choices / map payloads
	FullTrace bool `json:"full_trace,omitempty"` // return the whole trace, not only the tail
}

// CallResult is what one call was observed to do.
type CallResult struct {
	Class     string         `json:"class"` // ok | err | panic | notrun | diverged (bitlist: disagreement with the model)
	Stats     map[string]int `json:"stats,omitempty"`
	Digest    string         `json:"digest,omitempty"`
	W         int            `json:"w,omitempty"` // image width (Bounds().Dx()) when a barcode was returned
	H         int            `json:"h,omitempty"`
	Err       string         `json:"err,omitempty"`
	Panic     string         `json:"panic,omitempty"`
	Stack     string         `json:"stack,omitempty"`
	ArgMod    bool           `json:"arg_mod,omitempty"`    // the call modified its argument buffer
	MutDig    string         `json:"mut_digest,omitempty"` // digest after the caller overwrote the buffer
	EndDig    string         `json:"end_digest,omitempty"` // digest at the end of the program (k calls later)
	MutWhat   string         `json:"mut_what,omitempty"`   // which observable changed
	LaterWhat string         `json:"later_what,omitempty"` // which observable of the returned barcode changed after later calls
	Steps     int            `json:"steps,omitempty"`
}

// Leak describes a library goroutine still alive at quiescence.
type Leak struct {
	Header string `json:"header"`
	Stack  string `json:"stack"`
	Module bool   `json:"module"` // stack contains a frame of the module under test
}

// Result is what a node reports for a segment.
type Result struct {
	Verdict     string           `json:"verdict"` // done | deadlock | stepcap | hang | internal
	Detail      string           `json:"detail,omitempty"`
	Results     [][][]CallResult `json:"results,omitempty"` // phase -> worker -> call
	SharedRes   []CallResult     `json:"shared_res,omitempty"`
	Steps       int              `json:"steps"`
	Switches    int              `json:"switches"`
	TraceHash   string           `json:"trace_hash"`
	SwitchSig   string           `json:"switch_sig"`
	LockSig     string           `json:"lock_sig,omitempty"` // hash of the order in which callers acquired locks
	Trace       []string         `json:"trace,omitempty"`
	Choices     []int32          `json:"choices,omitempty"`
	MapPay      []uint64         `json:"map_pay,omitempty"`
	Leaks       []Leak           `json:"leaks,omitempty"`
	Races       int              `json:"races"`
	RaceBuild   bool             `json:"race_build"`
	Goroutines  int              `json:"goroutines"` // logical goroutines seen
	Spawned     int              `json:"spawned"`
	Sites       map[string]int   `json:"sites,omitempty"`
	Probes      map[string]int   `json:"probes,omitempty"`
	LockWaits   int              `json:"lock_waits"`
	StallsFired int              `json:"stalls_fired"`
	Preempts    int              `json:"preempts"`
	MapRanges   int              `json:"map_ranges"`
	ClockJumps  int              `json:"clock_jumps"`
	Timers      int              `json:"timers"`      // timers announced to the scheduler
	TimerFires  int              `json:"timer_fires"` // receives released because a timer was due
	Pairs       int              `json:"pairs"`       // channel rendezvous completed by releasing both parties together
	Selects     int              `json:"selects"`     // select statements whose clause the scheduler chose
	Fallbacks   int              `json:"fallbacks"`   // goroutines let into a real operation on a channel fed from outside the model
	Aux         []uint32         `json:"aux,omitempty"`
	FairKicks   int              `json:"fair_kicks"`
	SimNs       int64            `json:"sim_ns"`         // fake-clock time that passed inside the bubble
	Dump        string           `json:"dump,omitempty"` // goroutine dump on deadlock / hang
}
