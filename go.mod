module verif

go 1.23
