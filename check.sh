#!/bin/sh
# ./check.sh <C15|C16|C18> <quick|thorough>     run a property check against /repo's working tree
# ./check.sh replay <file>                      re-run a replay file
# ./check.sh selftest <name>
# exit 0 = held / not reproduced, 1 = VIOLATION, 2 = harness or build trouble
set -u
cd "$(dirname "$0")" || exit 2
export GOFLAGS=-mod=mod GOPROXY=off GOSUMDB=off GOTOOLCHAIN=local
if [ ! -x bin/verifctl ] || [ ! -x bin/instrument ] || [ -n "$(find cmd simtypes -newer bin/verifctl -name '*.go' 2>/dev/null | head -1)" ]; then
  ./setup.sh >/dev/null 2>&1 || { echo "check.sh: setup failed" >&2; ./setup.sh; exit 2; }
fi
case "${1:-}" in
  replay)   exec ./bin/verifctl replay "$2" ;;
  selftest) shift; exec ./bin/verifctl selftest "$@" ;;
  C15|C16|C18)
    tier="${2:-${VERIF_TIER:-quick}}"
    if [ "$tier" = thorough ] && [ "$1" = C16 ] && [ -z "${VERIF_SKIP_SELFTESTS:-}" ]; then
      # the thorough tier first re-establishes what every verdict rests on: the instrumented copy
      # behaves like the original, and one seed is one execution (failures here are harness trouble)
      ./bin/verifctl selftest instrumenter || { echo "check.sh: selftest instrumenter failed" >&2; exit 2; }
      ./bin/verifctl selftest sim-constructs 120 || { echo "check.sh: selftest sim-constructs failed" >&2; exit 2; }
      ./bin/verifctl selftest instrumented-tests || { echo "check.sh: selftest instrumented-tests failed" >&2; exit 2; }
      ./bin/verifctl selftest determinism 16 || { echo "check.sh: selftest determinism failed" >&2; exit 2; }
    fi
    exec ./bin/verifctl check "$1" "$tier" ;;
  *) echo "usage: $0 <C15|C16|C18> <quick|thorough> | replay <file> | selftest <name>" >&2; exit 2 ;;
esac
